#!/bin/sh
# Build everything the checks need, offline, from files on disk only.
set -e
cd /verif/harness
[ -f Cargo.lock ] || cp /repo/Cargo.lock Cargo.lock
CARGO_NET_OFFLINE=true cargo build --offline 2>&1 | tail -3
cd /verif/spec
for m in Tree Acts Ref ActsProps MCActs TraceActs Observe AckRetry TraceAck StoreQuery TraceStore MCStore Glob Channels TraceChan MCGlob Deploy TraceDeploy TraceTree MCTree MCDeploy Script MCScript TraceScript Gen MCGen TraceGen Data MCData TraceData; do
  tla-sany $m.tla >/dev/null 2>&1 || { echo "SANY failed on $m"; exit 1; }
done
echo setup ok
