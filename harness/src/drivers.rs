//! Scenario drivers.

use crate::world::{Cfg, Key, World};
use crate::{Args, Out, read_ndjson, runtime, tree};
use acts::{Workflow, verif};
use rand::rngs::StdRng;
use rand::seq::SliceRandom;
use rand::{Rng, SeedableRng};
use serde_json::{Value, json};

fn step_ids(spec: &Value, acc: &mut Vec<String>) {
    match spec {
        Value::Object(map) => {
            if map.contains_key("branches") && map.contains_key("acts") {
                if let Some(id) = map.get("id").and_then(|v| v.as_str()) {
                    acc.push(id.to_string());
                }
            }
            for v in map.values() {
                step_ids(v, acc);
            }
        }
        Value::Array(a) => {
            for v in a {
                step_ids(v, acc);
            }
        }
        _ => {}
    }
}

/// model -> YAML -> model -> JSON -> model: is the result the model we started from
fn round_trip(wf: &Workflow) -> bool {
    let step = || -> Result<Workflow, String> {
        let y = wf.to_yml().map_err(|e| e.to_string())?;
        let w2 = Workflow::from_yml(&y).map_err(|e| e.to_string())?;
        let j = w2.to_json().map_err(|e| e.to_string())?;
        Workflow::from_json(&j).map_err(|e| e.to_string())
    };
    match step() {
        Ok(w3) => serde_json::to_value(wf).unwrap() == serde_json::to_value(&w3).unwrap(),
        Err(_) => false,
    }
}

/// does the parsed model carry every value of the text it was parsed from
fn keeps_text(wf: &Workflow, text: &str) -> bool {
    fn covered(orig: &Value, got: &Value) -> bool {
        match (orig, got) {
            (Value::Object(a), Value::Object(b)) => a.iter().all(|(k, v)| match b.get(k) {
                Some(w) => covered(v, w),
                None => false,
            }),
            (Value::Array(a), Value::Array(b)) => a.len() == b.len() && a.iter().zip(b).all(|(x, y)| covered(x, y)),
            (x, y) => x == y,
        }
    }
    match serde_json::from_str::<Value>(text) {
        Ok(orig) => covered(&orig, &serde_json::to_value(wf).unwrap()),
        Err(_) => false,
    }
}

pub fn engine_tree(model_text: &str) -> Value {
    match Workflow::from_json(model_text) {
        Ok(wf) => match verif::dump_tree(&wf) {
            Ok(d) => json!({"ok": true, "nodes": tree::table(&d), "warn": d["error"],
                "roundtrip": round_trip(&wf), "keeps": keeps_text(&wf, model_text)}),
            Err(e) => json!({"ok": false, "err": e, "nodes": [], "roundtrip": round_trip(&wf),
                "keeps": keeps_text(&wf, model_text)}),
        },
        Err(e) => json!({"ok": false, "err": e.to_string(), "nodes": [], "roundtrip": false, "keeps": false}),
    }
}

#[derive(Clone)]
pub struct RandomParams {
    pub max_steps: usize,
    pub pact: f64,
    pub budget: usize,
    pub kinds: Vec<String>,
    pub codes: Vec<String>,
    /// novelty guidance: prefer the (state, choice) pairs taken least often so far
    pub guided: bool,
    /// clock moves explored and the grid of clock readings they may reach (per model, from gen.py)
    pub advset: Vec<i64>,
    pub grid: Vec<i64>,
    /// evict the process from the cache at quiescent points (C12)
    pub evict: bool,
}

/// how often each (model, input, canonical state, choice) was taken in this harness process
pub type Visits = std::collections::HashMap<u64, u32>;

fn hash_of(parts: &[&str]) -> u64 {
    use std::hash::{Hash, Hasher};
    let mut h = std::collections::hash_map::DefaultHasher::new();
    for p in parts {
        p.hash(&mut h);
    }
    h.finish()
}

/// the canonical projection used as the state key: task states by key, queue, budget
fn state_key(w: &World, pid: &str, budget: usize) -> String {
    let mut ts: Vec<String> = w
        .tasks(pid)
        .iter()
        .map(|t| format!("{}#{}:{}", t.0.0, t.0.1, t.2))
        .collect();
    ts.sort();
    let mut q: Vec<String> = w.parked(pid).iter().map(|k| format!("{}#{}", k.0, k.1)).collect();
    q.sort();
    format!("{}|{}|{}|{}", ts.join(","), q.join(","), budget, verif::clock_now())
}

#[derive(Clone, Debug)]
enum Choice {
    Exec(Key),
    Act(Key, String, Value, bool), // target, kind, opts, free (does not use the budget)
    Tick,
    Advance(i64),
    Evict,
}

impl Choice {
    fn label(&self) -> String {
        match self {
            Choice::Exec(k) => format!("E:{}#{}", k.0, k.1),
            Choice::Act(k, kind, o, _) => format!("A:{}#{}:{}:{}", k.0, k.1, kind, o),
            Choice::Tick => "T".to_string(),
            Choice::Advance(d) => format!("V:{d}"),
            Choice::Evict => "X".to_string(),
        }
    }
}

fn enumerate_choices(
    w: &World,
    pid: &str,
    budget: usize,
    p: &RandomParams,
    steps_ids: &[String],
) -> Vec<Choice> {
    let mut out = Vec::new();
    for k in w.parked(pid) {
        out.push(Choice::Exec(k));
    }
    let tasks = w.tasks(pid);
    let none = json!({"ecode": "nil", "to": "nil"});
    for t in &tasks {
        if t.1 == "act" && t.2 == "interrupted" {
            out.push(Choice::Act(t.0.clone(), "complete".to_string(), none.clone(), true));
        }
    }
    if budget > 0 {
        let mut kinds: Vec<String> = p.kinds.clone();
        kinds.sort();
        kinds.dedup();
        for t in &tasks {
            if t.1 != "act" {
                continue;
            }
            for kind in &kinds {
                if kind == "complete" && t.2 == "interrupted" {
                    continue;
                }
                match kind.as_str() {
                    "error" => {
                        for c in &p.codes {
                            out.push(Choice::Act(t.0.clone(), kind.clone(), json!({"ecode": c, "to": "nil"}), false));
                        }
                    }
                    "back" => {
                        for s in steps_ids {
                            out.push(Choice::Act(t.0.clone(), kind.clone(), json!({"ecode": "nil", "to": s}), false));
                        }
                    }
                    _ => out.push(Choice::Act(t.0.clone(), kind.clone(), none.clone(), false)),
                }
            }
        }
        // one non-act target and one unknown target
        if let Some(t) = tasks.iter().find(|t| t.1 == "step") {
            out.push(Choice::Act(t.0.clone(), "complete".to_string(), none.clone(), false));
        }
        out.push(Choice::Act(("zz".to_string(), 1), "skip".to_string(), none.clone(), false));
    }
    // eviction: only when nothing is queued or parked, the process is cached, and it was asked for
    if p.evict && w.parked(pid).is_empty() && verif::jobs_list().is_empty() && !tasks.is_empty() {
        out.push(Choice::Evict);
    }
    // time: only for models that have timeout rules
    if !p.advset.is_empty() {
        let now = (verif::clock_now() - crate::world::CLOCK_BASE) / 1000;
        out.push(Choice::Tick);
        for d in &p.advset {
            if p.grid.contains(&(now + d)) {
                out.push(Choice::Advance(*d));
            }
        }
    }
    out
}

/// the clock moves of a model as the generator fixed them (the same grid TLC is configured with)
pub fn clock_params(line: &Value) -> (Vec<i64>, Vec<i64>) {
    let get = |k: &str| -> Vec<i64> {
        line["clock"][k]
            .as_array()
            .map(|a| a.iter().filter_map(|v| v.as_i64()).collect())
            .unwrap_or_default()
    };
    (get("adv"), get("grid"))
}


/// one random scenario on a fresh engine
pub async fn random_scenario(
    line: &Value,
    mi: usize,
    input: &Value,
    cfg: &Cfg,
    workdir: &str,
    rng: &mut StdRng,
    p: &RandomParams,
    visits: &mut Visits,
) -> Vec<Value> {
    let mut pp = p.clone();
    (pp.advset, pp.grid) = clock_params(line);
    let p = &pp;
    let name = line["name"].as_str().unwrap();
    let model_text = line["model"].as_str().unwrap();
    let mut w = World::new(cfg, workdir, "r", &line["spec"]).await;
    let tree = engine_tree(model_text);
    w.model_line(name, tree.clone(), input, json!({"mi": mi + 1}));
    if tree["ok"] != json!(true) {
        return std::mem::take(&mut w.lines);
    }
    if let Err(e) = w.deploy(model_text) {
        w.lines.push(json!({"ev": "note", "what": "deploy failed", "err": e}));
        return std::mem::take(&mut w.lines);
    }
    let mid = line["spec"]["id"].as_str().unwrap().to_string();
    let pid = "p1";
    let mut steps_ids = Vec::new();
    step_ids(&line["spec"], &mut steps_ids);

    w.start_call(&mid, pid, input).await;
    w.launch(pid).await;
    let mut budget = p.budget;
    if p.guided {
        let scope = format!("{}|{}", name, input);
        for _ in 0..p.max_steps {
            if w.stuck {
                break;
            }
            let choices = enumerate_choices(&w, pid, budget, p, &steps_ids);
            if choices.is_empty() {
                break;
            }
            let sk = state_key(&w, pid, budget);
            let counts: Vec<u32> = choices
                .iter()
                .map(|c| *visits.get(&hash_of(&[&scope, &sk, &c.label()])).unwrap_or(&0))
                .collect();
            let min = *counts.iter().min().unwrap();
            let best: Vec<usize> = (0..choices.len()).filter(|i| counts[*i] == min).collect();
            let pick = &choices[*best.choose(rng).unwrap()];
            *visits.entry(hash_of(&[&scope, &sk, &pick.label()])).or_insert(0) += 1;
            match pick {
                Choice::Exec(k) => {
                    w.exec_task(pid, k).await;
                }
                Choice::Act(k, kind, opts, free) => {
                    w.act(pid, k, kind, opts).await;
                    if !free {
                        budget -= 1;
                    }
                }
                Choice::Tick => w.tick().await,
                Choice::Advance(d) => w.advance(*d).await,
                Choice::Evict => w.evict(pid).await,
            }
        }
        w.lines.push(json!({"ev": "end", "steps": w.steps}));
        return std::mem::take(&mut w.lines);
    }
    for _ in 0..p.max_steps {
        if w.stuck || w.gone(pid) {
            break;
        }
        let parked = w.parked(pid);
        let tasks = w.tasks(pid);
        let open_irqs: Vec<&(Key, String, String, String)> = tasks
            .iter()
            .filter(|t| t.1 == "act" && t.2 == "interrupted")
            .collect();
        if !p.advset.is_empty() && rng.gen_bool(0.25) {
            let now = (verif::clock_now() - crate::world::CLOCK_BASE) / 1000;
            let moves: Vec<i64> = p.advset.iter().cloned().filter(|d| p.grid.contains(&(now + d))).collect();
            if moves.is_empty() || rng.gen_bool(0.5) {
                w.tick().await;
            } else {
                w.advance(*moves.choose(rng).unwrap()).await;
            }
            continue;
        }
        if p.evict && parked.is_empty() && verif::jobs_list().is_empty() && !tasks.is_empty() && rng.gen_bool(0.3) {
            w.evict(pid).await;
            // the live dump is gone until the next access: act right away - either answer an open
            // interrupt, or touch the process with an action that is refused (unknown task), which
            // reloads it and leaves everything open: what hangs off the open tasks (timeout rules,
            // catches) must then work from the reloaded image
            let open = w.last_tasks.iter().find(|t| t.1 == "act" && t.2 == "interrupted").map(|t| t.0.clone());
            match open {
                Some(k) if rng.gen_bool(0.5) => {
                    w.act(pid, &k, "complete", &json!({"ecode": "nil", "to": "nil"})).await;
                }
                _ => {
                    w.act(pid, &("zz".to_string(), 1), "skip", &json!({"ecode": "nil", "to": "nil"})).await;
                }
            }
            continue;
        }
        let do_action = budget > 0 && !tasks.is_empty() && rng.gen_bool(p.pact);
        if do_action {
            let kind = p.kinds.choose(rng).unwrap().clone();
            // target: mostly open acts, sometimes terminal acts, sometimes other tasks
            let r: f64 = rng.r#gen();
            let pool: Vec<&(Key, String, String, String)> = if r < 0.6 && !open_irqs.is_empty() {
                open_irqs.clone()
            } else if r < 0.85 {
                tasks.iter().filter(|t| t.1 == "act").collect()
            } else {
                tasks.iter().collect()
            };
            let target: Key = if pool.is_empty() || rng.gen_bool(0.03) {
                ("zz".to_string(), 1)
            } else {
                pool.choose(rng).unwrap().0.clone()
            };
            let opts = match kind.as_str() {
                "error" => {
                    if rng.gen_bool(0.1) {
                        json!({"ecode": "nil", "to": "nil"})
                    } else {
                        json!({"ecode": p.codes.choose(rng).unwrap(), "to": "nil"})
                    }
                }
                "back" => {
                    if steps_ids.is_empty() || rng.gen_bool(0.1) {
                        json!({"ecode": "nil", "to": "nil"})
                    } else {
                        json!({"ecode": "nil", "to": steps_ids.choose(rng).unwrap()})
                    }
                }
                _ => json!({"ecode": "nil", "to": "nil"}),
            };
            w.act(pid, &target, &kind, &opts).await;
            budget -= 1;
            continue;
        }
        if !parked.is_empty() {
            let k = parked.choose(rng).unwrap().clone();
            w.exec_task(pid, &k).await;
            continue;
        }
        if !open_irqs.is_empty() {
            let k = open_irqs.choose(rng).unwrap().0.clone();
            w.act(pid, &k, "complete", &json!({"ecode": "nil", "to": "nil"}))
                .await;
            continue;
        }
        break;
    }
    w.lines.push(json!({"ev": "end", "steps": w.steps}));
    std::mem::take(&mut w.lines)
}

pub fn random(args: &Args) -> i32 {
    let models = read_ndjson(&args.str("models", ""));
    let mut out = Out::new(&args.str("out", "trace.ndjson"));
    let seed = args.num("seed", 1);
    let runs = args.num("runs", 10) as usize;
    let flavour = args.str("rt", "ct");
    let workdir = args.str("workdir", "/verif/.work/run");
    let kinds: Vec<String> = args
        .str("kinds", "complete")
        .split(',')
        .map(|s| s.to_string())
        .collect();
    let p = RandomParams {
        max_steps: args.num("steps", 60) as usize,
        pact: args.flt("pact", 0.2),
        budget: args.num("budget", 3) as usize,
        kinds,
        codes: vec!["e1".to_string(), "e2".to_string()],
        guided: args.get("guided").is_some(),
        advset: vec![],
        grid: vec![],
        evict: args.get("evict").is_some(),
    };
    let mut visits = Visits::new();
    let mut cfg = Cfg::default();
    cfg.keep = args.get("nokeep").is_none();
    let mut rng = StdRng::seed_from_u64(seed);
    let offset = args.num("offset", 0) as usize;
    // one tokio runtime for all scenarios of this process (a runtime per scenario leaks its
    // epoll/eventfd pair); engines of finished scenarios only leave idle tasks behind
    let rt = runtime(&flavour);
    for i in 0..runs {
        let mi = if args.get("shuffle").is_some() {
            rng.gen_range(0..models.len())
        } else {
            (offset + i) % models.len()
        };
        let line = &models[mi];
        let inputs = line["inputs"].as_array().unwrap();
        let input = inputs.choose(&mut rng).unwrap().clone();
        let lines = rt.block_on(random_scenario(
            line, mi, &input, &cfg, &workdir, &mut rng, &p, &mut visits,
        ));
        out.write(&lines);
    }
    out.flush();
    eprintln!("random: {} runs, {} lines", runs, out.lines);
    0
}

fn key_of(v: &Value) -> Key {
    (
        v[0].as_str().unwrap_or("nil").to_string(),
        v[1].as_u64().unwrap_or(0) as u32,
    )
}

/// Step the engine through one specification behaviour (a list of action labels).
/// A label that cannot be applied is recorded as `diverged`; the scenario then stops
/// following the labels.  With `drain` the run is continued to its end afterwards: parked
/// tasks oldest first, open interrupts answered with complete.
pub async fn replay_scenario(
    models: &[Value],
    beh: &Value,
    cfg: &Cfg,
    workdir: &str,
    drain: bool,
) -> Vec<Value> {
    let labels = beh["labels"].as_array().unwrap();
    let first = &labels[0];
    let mi = first["opt"]["mi"].as_u64().expect("first label must be StartCall") as usize;
    let line = &models[mi - 1];
    let input = first["opt"]["inp"].clone();
    let name = line["name"].as_str().unwrap();
    let model_text = line["model"].as_str().unwrap();
    let mut w = World::new(cfg, workdir, "p", &line["spec"]).await;
    let tree = engine_tree(model_text);
    w.model_line(name, tree.clone(), &input, json!({"mi": mi, "beh": beh["id"]}));
    if tree["ok"] != json!(true) {
        return std::mem::take(&mut w.lines);
    }
    if let Err(e) = w.deploy(model_text) {
        w.lines.push(json!({"ev": "note", "what": "deploy failed", "err": e}));
        return std::mem::take(&mut w.lines);
    }
    let mid = line["spec"]["id"].as_str().unwrap().to_string();
    let mut diverged = false;
    for (i, l) in labels.iter().enumerate() {
        let pid = l["pid"].as_str().unwrap_or("p1").to_string();
        let ok = match l["a"].as_str().unwrap_or("") {
            "StartCall" => w.start_call(&mid, &pid, &input).await,
            "Launch" => w.launch(&pid).await,
            "Exec" => w.exec_task(&pid, &key_of(&l["t"])).await,
            "Act" => {
                let kind = l["kind"].as_str().unwrap();
                let opts = json!({"ecode": l["opt"]["ecode"], "to": l["opt"]["to"]});
                w.act(&pid, &key_of(&l["t"]), kind, &opts).await;
                true
            }
            "Tick" => {
                w.tick().await;
                true
            }
            "Advance" => {
                w.advance(l["opt"]["d"].as_i64().unwrap_or(0)).await;
                true
            }
            other => {
                w.lines.push(json!({"ev": "note", "what": "unknown label", "a": other}));
                false
            }
        };
        if !ok || w.stuck {
            w.lines.push(json!({"ev": "note", "what": "diverged", "at": i + 1, "label": l}));
            diverged = true;
            break;
        }
    }
    if drain && !diverged {
        for _ in 0..200 {
            let pids = w.pids.clone();
            let mut moved = false;
            for pid in &pids {
                let parked = w.parked(pid);
                if let Some(k) = parked.first() {
                    w.exec_task(pid, k).await;
                    moved = true;
                    break;
                }
                let open: Vec<Key> = w
                    .tasks(pid)
                    .iter()
                    .filter(|t| t.1 == "act" && t.2 == "interrupted")
                    .map(|t| t.0.clone())
                    .collect();
                if let Some(k) = open.first() {
                    w.act(pid, k, "complete", &json!({"ecode": "nil", "to": "nil"}))
                        .await;
                    moved = true;
                    break;
                }
            }
            if !moved {
                break;
            }
        }
    }
    w.lines.push(json!({"ev": "end", "steps": w.steps}));
    std::mem::take(&mut w.lines)
}

// ------------------------------------------------------------------------------------------
// explore: exhaustive exploration of the IMPLEMENTATION for one small model

/// the exploration key of an engine state: everything the continuation and the history-counting
/// formulas depend on (task states, links, flags, message counts, accepted actions, queue, budget)
fn explore_key(w: &World, pid: &str, budget: usize, counts: &std::collections::BTreeMap<String, (u32, u32, u32)>) -> String {
    let post = w.post();
    let p = &post["procs"][pid];
    let mut ts: Vec<String> = Vec::new();
    if let Some(tasks) = p["tasks"].as_array() {
        // creation stamps matter only as the order among the tasks hanging off one predecessor
        for t in tasks {
            let k = format!("{}#{}", t["k"][0].as_str().unwrap_or(""), t["k"][1]);
            let rank = tasks
                .iter()
                .filter(|u| u["prev"] == t["prev"] && u["seq"].as_u64() < t["seq"].as_u64())
                .count();
            let c = counts.get(&k).cloned().unwrap_or((0, 0, 0));
            ts.push(format!(
                "{}:{}:{}#{}:{}:{}:{}:{}:{}.{}.{}:{}:{}",
                k, t["st"].as_str().unwrap_or(""), t["prev"][0].as_str().unwrap_or(""), t["prev"][1], rank,
                t["err"].as_str().unwrap_or(""), t["emitOff"], t["catchDone"], c.0.min(2), c.1.min(2), c.2.min(2),
                t["start"], t["tdone"]
            ));
        }
    }
    ts.sort();
    let mut q: Vec<String> = w.parked(pid).iter().map(|k| format!("{}#{}", k.0, k.1)).collect();
    q.sort();
    format!("{}|{}|{}|{}|{}", ts.join(","), q.join(","), budget, p["ps"].as_str().unwrap_or(""), post["now"])
}

struct Frontier {
    path: Vec<Choice>,
    key: String,
}

async fn explore_run(
    line: &Value,
    mi: usize,
    input: &Value,
    cfg: &Cfg,
    workdir: &str,
    p: &RandomParams,
    path: &[Choice],
    visited: &mut std::collections::HashSet<String>,
    explored: &mut std::collections::HashSet<(String, String)>,
    frontier: &mut Vec<Frontier>,
    remaining: &mut std::collections::HashMap<String, usize>,
    run_no: usize,
) -> Vec<Value> {
    let mut pp = p.clone();
    (pp.advset, pp.grid) = clock_params(line);
    let p = &pp;
    let name = line["name"].as_str().unwrap();
    let model_text = line["model"].as_str().unwrap();
    let mut w = World::new(cfg, workdir, "x", &line["spec"]).await;
    let tree = engine_tree(model_text);
    w.model_line(name, tree.clone(), input, json!({"mi": mi + 1, "explore": run_no}));
    if tree["ok"] != json!(true) || w.deploy(model_text).is_err() {
        return std::mem::take(&mut w.lines);
    }
    let mid = line["spec"]["id"].as_str().unwrap().to_string();
    let pid = "p1";
    let mut steps_ids = Vec::new();
    step_ids(&line["spec"], &mut steps_ids);
    w.start_call(&mid, pid, input).await;
    w.launch(pid).await;
    let mut budget = p.budget;
    let mut counts: std::collections::BTreeMap<String, (u32, u32, u32)> = Default::default();
    let mut taken: Vec<Choice> = Vec::new();

    // bookkeeping shared by the prefix replay and the new part
    async fn apply(
        w: &mut World,
        pid: &str,
        c: &Choice,
        budget: &mut usize,
        counts: &mut std::collections::BTreeMap<String, (u32, u32, u32)>,
    ) {
        match c {
            Choice::Exec(k) => {
                w.exec_task(pid, k).await;
            }
            Choice::Act(k, kind, opts, free) => {
                let ok = w.act(pid, k, kind, opts).await;
                if ok && !free {
                    *budget -= 1;
                }
                if ok && kind != "cancel" && kind != "push" {
                    counts.entry(format!("{}#{}", k.0, k.1)).or_insert((0, 0, 0)).2 += 1;
                }
            }
            Choice::Tick => w.tick().await,
            Choice::Advance(d) => w.advance(*d).await,
            Choice::Evict => w.evict(pid).await,
        }
        if let Some(last) = w.lines.last() {
            if let Some(gens) = last["gens"].as_array() {
                for g in gens {
                    if g["what"] != "message" {
                        continue;
                    }
                    let k = format!("{}#{}", g["t"][0].as_str().unwrap_or(""), g["t"][1]);
                    let e = counts.entry(k).or_insert((0, 0, 0));
                    if g["state"] == "created" {
                        e.0 += 1;
                    } else {
                        e.1 += 1;
                    }
                }
            }
        }
    }

    w.prefix = !path.is_empty();
    for c in path {
        apply(&mut w, pid, c, &mut budget, &mut counts).await;
        taken.push(c.clone());
    }
    w.prefix = false;
    for _ in 0..p.max_steps {
        if w.stuck || w.gone(pid) {
            break;
        }
        let key = explore_key(&w, pid, budget, &counts);
        visited.insert(key.clone());
        let choices = enumerate_choices(&w, pid, budget, p, &steps_ids);
        let fresh: Vec<&Choice> = choices
            .iter()
            .filter(|c| !explored.contains(&(key.clone(), c.label())))
            .collect();
        remaining.insert(key.clone(), fresh.len().saturating_sub(1));
        if fresh.is_empty() {
            break;
        }
        if fresh.len() > 1 {
            frontier.push(Frontier { path: taken.clone(), key: key.clone() });
        }
        let c = fresh[0].clone();
        explored.insert((key.clone(), c.label()));
        apply(&mut w, pid, &c, &mut budget, &mut counts).await;
        taken.push(c);
        let nk = explore_key(&w, pid, budget, &counts);
        // models with a backward `next` jump run for ever: third instances are not explored
        if w.tasks(pid).iter().any(|t| t.0.1 > 2) {
            visited.insert(nk);
            break;
        }
        if visited.contains(&nk) {
            // an edge into known territory: recorded, nothing new behind it
            break;
        }
    }
    w.lines.push(json!({"ev": "end", "steps": w.steps}));
    std::mem::take(&mut w.lines)
}

/// every reachable (state, choice) pair of the implementation for each model of a (small) family,
/// up to the client action budget; one recorded scenario per run
pub fn explore(args: &Args) -> i32 {
    let models = read_ndjson(&args.str("models", ""));
    // --split N: runs are written round-robin to <out>.0 .. <out>.N-1 so that validation
    // parallelises evenly however unbalanced the models are
    let split = args.num("split", 1) as usize;
    let base = args.str("out", "trace.ndjson");
    let mut outs: Vec<Out> = (0..split)
        .map(|i| Out::new(&if split == 1 { base.clone() } else { format!("{base}.{i}") }))
        .collect();
    let workdir = args.str("workdir", "/verif/.work/run");
    let kinds: Vec<String> = args.str("kinds", "complete").split(',').map(|s| s.to_string()).collect();
    let p = RandomParams {
        max_steps: args.num("steps", 60) as usize,
        pact: 0.0,
        budget: args.num("budget", 1) as usize,
        kinds,
        codes: args.str("codes", "e1,e2").split(',').map(|s| s.to_string()).collect(),
        guided: false,
        advset: vec![],
        grid: vec![],
        evict: args.get("evict").is_some(),
    };
    let max_runs = args.num("max-runs", 20000) as usize;
    let nokeep = args.get("nokeep").is_some();
    let shard = args.num("shard", 0) as usize;
    let shards = args.num("shards", 1) as usize;
    let mut cfg = Cfg::default();
    cfg.keep = !nokeep;
    let mut total_runs = 0usize;
    let mut total_states = 0usize;
    let mut total_edges = 0usize;
    let mut capped = 0usize;
    let mut n = 0usize;
    let rt = runtime("ct");
    for (mi, line) in models.iter().enumerate() {
        for input in line["inputs"].as_array().unwrap() {
            n += 1;
            if n % shards != shard {
                continue;
            }
            let mut visited = std::collections::HashSet::new();
            let mut explored = std::collections::HashSet::new();
            let mut frontier: Vec<Frontier> = vec![Frontier { path: vec![], key: String::new() }];
            let mut runs = 0usize;
            let mut remaining: std::collections::HashMap<String, usize> = Default::default();
            while let Some(f) = frontier.pop() {
                if !f.key.is_empty() && remaining.get(&f.key).cloned().unwrap_or(1) == 0 {
                    continue; // everything behind this state was explored through another path
                }
                if runs >= max_runs {
                    capped += 1;
                    break;
                }
                runs += 1;
                let lines = rt.block_on(explore_run(
                    line, mi, input, &cfg, &workdir, &p, &f.path, &mut visited, &mut explored,
                    &mut frontier, &mut remaining, runs,
                ));
                outs[runs % split].write(&lines);
            }
            total_runs += runs;
            total_states += visited.len();
            total_edges += explored.len();
        }
    }
    outs[0].write(&[json!({"ev": "note", "what": "explore summary", "runs": total_runs,
        "states": total_states, "edges": total_edges, "capped": capped})]);
    let mut nlines = 0;
    for o in outs.iter_mut() {
        o.flush();
        nlines += o.lines;
    }
    eprintln!(
        "explore: {} runs, {} states, {} edges, {} capped, {} lines",
        total_runs, total_states, total_edges, capped, nlines
    );
    0
}

/// An ungated run: the engine schedules itself on the runtime's own threads; the harness only
/// starts the process and answers every open interrupt with complete whenever the engine is
/// quiescent.  One recorded step per quiescent point.
pub async fn natural_scenario(
    line: &Value,
    mi: usize,
    input: &Value,
    cfg: &Cfg,
    workdir: &str,
    rng: &mut StdRng,
    flavour: &str,
) -> Vec<Value> {
    let name = line["name"].as_str().unwrap();
    let model_text = line["model"].as_str().unwrap();
    let mut w = World::new_with(cfg, workdir, "n", &line["spec"], false).await;
    let tree = engine_tree(model_text);
    w.model_line(name, tree.clone(), input, json!({"mi": mi + 1, "rt": flavour, "natural": true}));
    if tree["ok"] != json!(true) || w.deploy(model_text).is_err() {
        return std::mem::take(&mut w.lines);
    }
    let mid = line["spec"]["id"].as_str().unwrap().to_string();
    let pid = "p1";
    w.start_call(&mid, pid, input).await;
    for _ in 0..100 {
        if w.stuck {
            break;
        }
        let tasks = w.tasks(pid);
        let open: Vec<Key> = tasks
            .iter()
            .filter(|t| t.1 == "act" && t.2 == "interrupted")
            .map(|t| t.0.clone())
            .collect();
        if open.is_empty() {
            break;
        }
        let k = open.choose(rng).unwrap().clone();
        if rng.gen_bool(0.3) {
            tokio::time::sleep(std::time::Duration::from_micros(rng.gen_range(0..300))).await;
        }
        w.act(pid, &k, "complete", &json!({"ecode": "nil", "to": "nil"}))
            .await;
    }
    w.lines.push(json!({"ev": "end", "steps": w.steps}));
    std::mem::take(&mut w.lines)
}

pub fn natural(args: &Args) -> i32 {
    let models = read_ndjson(&args.str("models", ""));
    let mut out = Out::new(&args.str("out", "trace.ndjson"));
    let seed = args.num("seed", 1);
    let runs = args.num("runs", 10) as usize;
    let workdir = args.str("workdir", "/verif/.work/run");
    let flavours: Vec<String> = args
        .str("rt", "ct,mt1,mt2,mt4,mt8")
        .split(',')
        .map(|s| s.to_string())
        .collect();
    let cfg = Cfg::default();
    let mut rng = StdRng::seed_from_u64(seed);
    let offset = args.num("offset", 0) as usize;
    let rts: Vec<tokio::runtime::Runtime> = flavours.iter().map(|f| runtime(f)).collect();
    for i in 0..runs {
        let mi = (offset + i) % models.len();
        let line = &models[mi];
        let inputs = line["inputs"].as_array().unwrap();
        let input = inputs.choose(&mut rng).unwrap().clone();
        let flavour = &flavours[i % flavours.len()];
        let rt = &rts[i % flavours.len()];
        let lines = rt.block_on(natural_scenario(line, mi, &input, &cfg, &workdir, &mut rng, flavour));
        out.write(&lines);
    }
    out.flush();
    eprintln!("natural: {} runs, {} lines", runs, out.lines);
    0
}

pub fn replay(args: &Args) -> i32 {
    let models = read_ndjson(&args.str("models", ""));
    let behs = read_ndjson(&args.str("behaviours", ""));
    let mut out = Out::new(&args.str("out", "trace.ndjson"));
    let flavour = args.str("rt", "ct");
    let workdir = args.str("workdir", "/verif/.work/run");
    let drain = args.get("drain").is_some();
    let cfg = Cfg::default();
    let rt = runtime(&flavour);
    for beh in &behs {
        let lines = rt.block_on(replay_scenario(&models, beh, &cfg, &workdir, drain));
        out.write(&lines);
    }
    out.flush();
    eprintln!("replay: {} behaviours, {} lines", behs.len(), out.lines);
    0
}

/// the engine's tree for every model of a family (C20, tree half)
/// every string of the model text that is not itself an `id` field: ids found here are referenced
/// (needs, next, ...) and must stay as written
fn referenced(v: &Value, under_id: bool, out: &mut std::collections::HashSet<String>) {
    match v {
        Value::String(s) if !under_id => {
            out.insert(s.clone());
        }
        Value::Array(a) => a.iter().for_each(|x| referenced(x, false, out)),
        Value::Object(m) => m.iter().for_each(|(k, x)| referenced(x, k == "id", out)),
        _ => {}
    }
}

/// blank the id of every step, branch and act nothing refers to (the workflow, its `on` events and
/// anything inside parameters keep theirs): only members of `steps`, `branches` and `acts` lists of
/// the model structure are touched
fn strip_ids(v: &mut Value, member: bool, keep: &std::collections::HashSet<String>) {
    match v {
        Value::Array(a) => a.iter_mut().for_each(|x| strip_ids(x, member, keep)),
        Value::Object(m) => {
            if member {
                if let Some(Value::String(id)) = m.get("id") {
                    if !keep.contains(id) {
                        m.insert("id".to_string(), json!(""));
                    }
                }
            }
            for (k, x) in m.iter_mut() {
                match k.as_str() {
                    "steps" | "branches" | "acts" => strip_ids(x, true, keep),
                    "catches" | "timeout" => strip_ids(x, false, keep),
                    _ => {}
                }
            }
        }
        _ => {}
    }
}

fn rename(nodes: &Value, map: &std::collections::HashMap<String, String>) -> Value {
    let f = |v: &Value| match v.as_str().and_then(|s| map.get(s)) {
        Some(t) => json!(t),
        None => v.clone(),
    };
    let on = |v: &Value| Value::Array(v.as_array().unwrap().iter().map(|x| json!({"on": x["on"], "id": f(&x["id"])})).collect());
    let list = |v: &Value| Value::Array(v.as_array().unwrap().iter().map(&f).collect());
    Value::Array(
        nodes
            .as_array()
            .unwrap()
            .iter()
            .map(|n| {
                let mut n = n.clone();
                for k in ["id", "parent", "prev", "next"] {
                    n[k] = f(&n[k]);
                }
                n["kids"] = list(&n["kids"]);
                n["needs"] = list(&n["needs"]);
                n["ckids"] = on(&n["ckids"]);
                n["tkids"] = on(&n["tkids"]);
                n
            })
            .collect(),
    )
}

/// generated ids (C20): the same model with the ids nothing refers to left to the engine, and the
/// tree rebuilt from the model the first tree keeps (what a reload does). Both tables are renamed
/// position by position to the written ids; an id the rebuilt tree does not share with the first
/// one stays as it is and the table differs from Tree.tla's.
fn anon_trees(model_text: &str, named: &Value) -> Option<(Value, Value)> {
    let mut v: Value = serde_json::from_str(model_text).ok()?;
    let mut keep = std::collections::HashSet::new();
    referenced(&v, false, &mut keep);
    strip_ids(&mut v, false, &keep);
    let wf = Workflow::from_json(&v.to_string()).ok()?;
    let bad = |e: String| json!({"ok": false, "err": e, "nodes": [], "roundtrip": true, "keeps": true});
    let d = match verif::dump_tree(&wf) {
        Ok(d) => d,
        Err(e) => return Some((bad(e.clone()), bad(e))),
    };
    let a = tree::table(&d);
    let mut map = std::collections::HashMap::new();
    let (an, nn) = (a.as_array().unwrap(), named.as_array().unwrap());
    if an.len() == nn.len() {
        for (x, y) in an.iter().zip(nn.iter()) {
            map.insert(x["id"].as_str().unwrap_or("").to_string(), y["id"].as_str().unwrap_or("").to_string());
        }
    }
    let first = json!({"ok": true, "nodes": rename(&a, &map), "warn": d["error"], "roundtrip": round_trip(&wf), "keeps": true});
    let again = match Workflow::from_json(&d["model"].to_string()) {
        Ok(kept) => match verif::dump_tree(&kept) {
            Ok(d2) => json!({"ok": true, "nodes": rename(&tree::table(&d2), &map), "warn": d2["error"],
                "roundtrip": round_trip(&kept), "keeps": true}),
            Err(e) => bad(e),
        },
        Err(e) => bad(e.to_string()),
    };
    Some((first, again))
}

pub fn trees(args: &Args) -> i32 {
    let models = read_ndjson(&args.str("models", ""));
    let mut out = Out::new(&args.str("out", "trees.ndjson"));
    for (mi, line) in models.iter().enumerate() {
        let text = line["model"].as_str().unwrap();
        let tree = engine_tree(text);
        let rec = |name: String, tree: &Value| {
            json!({"ev": "model", "name": name, "model": line["spec"], "tree": tree,
            "inputs": line["inputs"][0], "x": {"mi": mi + 1}})
        };
        let name = line["name"].as_str().unwrap_or("").to_string();
        out.write(&[rec(name.clone(), &tree)]);
        if tree["ok"] == json!(true) {
            if let Some((first, again)) = anon_trees(text, &tree["nodes"]) {
                out.write(&[rec(format!("{name}~generated-ids"), &first)]);
                out.write(&[rec(format!("{name}~rebuilt-from-kept-model"), &again)]);
            }
        }
    }
    out.flush();
    0
}
