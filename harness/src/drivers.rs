//! Scenario drivers.

use crate::world::{Cfg, Key, World};
use crate::{Args, Out, read_ndjson, runtime, tree};
use acts::{Workflow, verif};
use rand::rngs::StdRng;
use rand::seq::SliceRandom;
use rand::{Rng, SeedableRng};
use serde_json::{Value, json};

fn step_ids(spec: &Value, acc: &mut Vec<String>) {
    match spec {
        Value::Object(map) => {
            if map.contains_key("branches") && map.contains_key("acts") {
                if let Some(id) = map.get("id").and_then(|v| v.as_str()) {
                    acc.push(id.to_string());
                }
            }
            for v in map.values() {
                step_ids(v, acc);
            }
        }
        Value::Array(a) => {
            for v in a {
                step_ids(v, acc);
            }
        }
        _ => {}
    }
}

fn engine_tree(model_text: &str) -> Value {
    match Workflow::from_json(model_text) {
        Ok(wf) => match verif::dump_tree(&wf) {
            Ok(d) => json!({"ok": true, "nodes": tree::table(&d), "warn": d["error"]}),
            Err(e) => json!({"ok": false, "err": e, "nodes": []}),
        },
        Err(e) => json!({"ok": false, "err": e.to_string(), "nodes": []}),
    }
}

pub struct RandomParams {
    pub max_steps: usize,
    pub pact: f64,
    pub budget: usize,
    pub kinds: Vec<String>,
    pub codes: Vec<String>,
}

/// one random scenario on a fresh engine
pub async fn random_scenario(
    line: &Value,
    mi: usize,
    input: &Value,
    cfg: &Cfg,
    workdir: &str,
    rng: &mut StdRng,
    p: &RandomParams,
) -> Vec<Value> {
    let name = line["name"].as_str().unwrap();
    let model_text = line["model"].as_str().unwrap();
    let mut w = World::new(cfg, workdir, "r", &line["spec"]).await;
    let tree = engine_tree(model_text);
    w.model_line(name, tree.clone(), input, json!({"mi": mi + 1}));
    if tree["ok"] != json!(true) {
        return std::mem::take(&mut w.lines);
    }
    if let Err(e) = w.deploy(model_text) {
        w.lines.push(json!({"ev": "note", "what": "deploy failed", "err": e}));
        return std::mem::take(&mut w.lines);
    }
    let mid = line["spec"]["id"].as_str().unwrap().to_string();
    let pid = "p1";
    let mut steps_ids = Vec::new();
    step_ids(&line["spec"], &mut steps_ids);

    w.start_call(&mid, pid, input).await;
    w.launch(pid).await;
    let mut budget = p.budget;
    for _ in 0..p.max_steps {
        let parked = w.parked(pid);
        let tasks = w.tasks(pid);
        let open_irqs: Vec<&(Key, String, String, String)> = tasks
            .iter()
            .filter(|t| t.1 == "act" && t.2 == "interrupted")
            .collect();
        let do_action = budget > 0 && !tasks.is_empty() && rng.gen_bool(p.pact);
        if do_action {
            let kind = p.kinds.choose(rng).unwrap().clone();
            // target: mostly open acts, sometimes terminal acts, sometimes other tasks
            let r: f64 = rng.r#gen();
            let pool: Vec<&(Key, String, String, String)> = if r < 0.6 && !open_irqs.is_empty() {
                open_irqs.clone()
            } else if r < 0.85 {
                tasks.iter().filter(|t| t.1 == "act").collect()
            } else {
                tasks.iter().collect()
            };
            let target: Key = if pool.is_empty() || rng.gen_bool(0.03) {
                ("zz".to_string(), 1)
            } else {
                pool.choose(rng).unwrap().0.clone()
            };
            let opts = match kind.as_str() {
                "error" => {
                    if rng.gen_bool(0.1) {
                        json!({"ecode": "nil", "to": "nil"})
                    } else {
                        json!({"ecode": p.codes.choose(rng).unwrap(), "to": "nil"})
                    }
                }
                "back" => {
                    if steps_ids.is_empty() || rng.gen_bool(0.1) {
                        json!({"ecode": "nil", "to": "nil"})
                    } else {
                        json!({"ecode": "nil", "to": steps_ids.choose(rng).unwrap()})
                    }
                }
                _ => json!({"ecode": "nil", "to": "nil"}),
            };
            w.act(pid, &target, &kind, &opts).await;
            budget -= 1;
            continue;
        }
        if !parked.is_empty() {
            let k = parked.choose(rng).unwrap().clone();
            w.exec_task(pid, &k).await;
            continue;
        }
        if !open_irqs.is_empty() {
            let k = open_irqs.choose(rng).unwrap().0.clone();
            w.act(pid, &k, "complete", &json!({"ecode": "nil", "to": "nil"}))
                .await;
            continue;
        }
        break;
    }
    w.lines.push(json!({"ev": "end", "steps": w.steps}));
    std::mem::take(&mut w.lines)
}

pub fn random(args: &Args) -> i32 {
    let models = read_ndjson(&args.str("models", ""));
    let mut out = Out::new(&args.str("out", "trace.ndjson"));
    let seed = args.num("seed", 1);
    let runs = args.num("runs", 10) as usize;
    let flavour = args.str("rt", "ct");
    let workdir = args.str("workdir", "/verif/.work/run");
    let kinds: Vec<String> = args
        .str("kinds", "complete")
        .split(',')
        .map(|s| s.to_string())
        .collect();
    let p = RandomParams {
        max_steps: args.num("steps", 60) as usize,
        pact: args.flt("pact", 0.2),
        budget: args.num("budget", 3) as usize,
        kinds,
        codes: vec!["e1".to_string(), "e2".to_string()],
    };
    let cfg = Cfg::default();
    let mut rng = StdRng::seed_from_u64(seed);
    let offset = args.num("offset", 0) as usize;
    for i in 0..runs {
        let mi = if args.get("shuffle").is_some() {
            rng.gen_range(0..models.len())
        } else {
            (offset + i) % models.len()
        };
        let line = &models[mi];
        let inputs = line["inputs"].as_array().unwrap();
        let input = inputs.choose(&mut rng).unwrap().clone();
        let rt = runtime(&flavour);
        let lines = rt.block_on(random_scenario(line, mi, &input, &cfg, &workdir, &mut rng, &p));
        rt.shutdown_background();
        out.write(&lines);
    }
    out.flush();
    eprintln!("random: {} runs, {} lines", runs, out.lines);
    0
}

fn key_of(v: &Value) -> Key {
    (
        v[0].as_str().unwrap_or("nil").to_string(),
        v[1].as_u64().unwrap_or(0) as u32,
    )
}

/// Step the engine through one specification behaviour (a list of action labels).
/// A label that cannot be applied is recorded as `diverged`; the scenario then stops
/// following the labels.  With `drain` the run is continued to its end afterwards: parked
/// tasks oldest first, open interrupts answered with complete.
pub async fn replay_scenario(
    models: &[Value],
    beh: &Value,
    cfg: &Cfg,
    workdir: &str,
    drain: bool,
) -> Vec<Value> {
    let labels = beh["labels"].as_array().unwrap();
    let first = &labels[0];
    let mi = first["opt"]["mi"].as_u64().expect("first label must be StartCall") as usize;
    let line = &models[mi - 1];
    let input = first["opt"]["inp"].clone();
    let name = line["name"].as_str().unwrap();
    let model_text = line["model"].as_str().unwrap();
    let mut w = World::new(cfg, workdir, "p", &line["spec"]).await;
    let tree = engine_tree(model_text);
    w.model_line(name, tree.clone(), &input, json!({"mi": mi, "beh": beh["id"]}));
    if tree["ok"] != json!(true) {
        return std::mem::take(&mut w.lines);
    }
    if let Err(e) = w.deploy(model_text) {
        w.lines.push(json!({"ev": "note", "what": "deploy failed", "err": e}));
        return std::mem::take(&mut w.lines);
    }
    let mid = line["spec"]["id"].as_str().unwrap().to_string();
    let mut diverged = false;
    for (i, l) in labels.iter().enumerate() {
        let pid = l["pid"].as_str().unwrap_or("p1").to_string();
        let ok = match l["a"].as_str().unwrap_or("") {
            "StartCall" => w.start_call(&mid, &pid, &input).await,
            "Launch" => w.launch(&pid).await,
            "Exec" => w.exec_task(&pid, &key_of(&l["t"])).await,
            "Act" => {
                let kind = l["kind"].as_str().unwrap();
                let opts = json!({"ecode": l["opt"]["ecode"], "to": l["opt"]["to"]});
                w.act(&pid, &key_of(&l["t"]), kind, &opts).await;
                true
            }
            other => {
                w.lines.push(json!({"ev": "note", "what": "unknown label", "a": other}));
                false
            }
        };
        if !ok {
            w.lines.push(json!({"ev": "note", "what": "diverged", "at": i + 1, "label": l}));
            diverged = true;
            break;
        }
    }
    if drain && !diverged {
        for _ in 0..200 {
            let pids = w.pids.clone();
            let mut moved = false;
            for pid in &pids {
                let parked = w.parked(pid);
                if let Some(k) = parked.first() {
                    w.exec_task(pid, k).await;
                    moved = true;
                    break;
                }
                let open: Vec<Key> = w
                    .tasks(pid)
                    .iter()
                    .filter(|t| t.1 == "act" && t.2 == "interrupted")
                    .map(|t| t.0.clone())
                    .collect();
                if let Some(k) = open.first() {
                    w.act(pid, k, "complete", &json!({"ecode": "nil", "to": "nil"}))
                        .await;
                    moved = true;
                    break;
                }
            }
            if !moved {
                break;
            }
        }
    }
    w.lines.push(json!({"ev": "end", "steps": w.steps}));
    std::mem::take(&mut w.lines)
}

/// An ungated run: the engine schedules itself on the runtime's own threads; the harness only
/// starts the process and answers every open interrupt with complete whenever the engine is
/// quiescent.  One recorded step per quiescent point.
pub async fn natural_scenario(
    line: &Value,
    mi: usize,
    input: &Value,
    cfg: &Cfg,
    workdir: &str,
    rng: &mut StdRng,
    flavour: &str,
) -> Vec<Value> {
    let name = line["name"].as_str().unwrap();
    let model_text = line["model"].as_str().unwrap();
    let mut w = World::new_with(cfg, workdir, "n", &line["spec"], false).await;
    let tree = engine_tree(model_text);
    w.model_line(name, tree.clone(), input, json!({"mi": mi + 1, "rt": flavour, "natural": true}));
    if tree["ok"] != json!(true) || w.deploy(model_text).is_err() {
        return std::mem::take(&mut w.lines);
    }
    let mid = line["spec"]["id"].as_str().unwrap().to_string();
    let pid = "p1";
    w.start_call(&mid, pid, input).await;
    for _ in 0..100 {
        let tasks = w.tasks(pid);
        let open: Vec<Key> = tasks
            .iter()
            .filter(|t| t.1 == "act" && t.2 == "interrupted")
            .map(|t| t.0.clone())
            .collect();
        if open.is_empty() {
            break;
        }
        let k = open.choose(rng).unwrap().clone();
        if rng.gen_bool(0.3) {
            tokio::time::sleep(std::time::Duration::from_micros(rng.gen_range(0..300))).await;
        }
        w.act(pid, &k, "complete", &json!({"ecode": "nil", "to": "nil"}))
            .await;
    }
    w.lines.push(json!({"ev": "end", "steps": w.steps}));
    std::mem::take(&mut w.lines)
}

pub fn natural(args: &Args) -> i32 {
    let models = read_ndjson(&args.str("models", ""));
    let mut out = Out::new(&args.str("out", "trace.ndjson"));
    let seed = args.num("seed", 1);
    let runs = args.num("runs", 10) as usize;
    let workdir = args.str("workdir", "/verif/.work/run");
    let flavours: Vec<String> = args
        .str("rt", "ct,mt1,mt2,mt4,mt8")
        .split(',')
        .map(|s| s.to_string())
        .collect();
    let cfg = Cfg::default();
    let mut rng = StdRng::seed_from_u64(seed);
    let offset = args.num("offset", 0) as usize;
    for i in 0..runs {
        let mi = (offset + i) % models.len();
        let line = &models[mi];
        let inputs = line["inputs"].as_array().unwrap();
        let input = inputs.choose(&mut rng).unwrap().clone();
        let flavour = &flavours[i % flavours.len()];
        let rt = runtime(flavour);
        let lines = rt.block_on(natural_scenario(line, mi, &input, &cfg, &workdir, &mut rng, flavour));
        rt.shutdown_background();
        out.write(&lines);
    }
    out.flush();
    eprintln!("natural: {} runs, {} lines", runs, out.lines);
    0
}

pub fn replay(args: &Args) -> i32 {
    let models = read_ndjson(&args.str("models", ""));
    let behs = read_ndjson(&args.str("behaviours", ""));
    let mut out = Out::new(&args.str("out", "trace.ndjson"));
    let flavour = args.str("rt", "ct");
    let workdir = args.str("workdir", "/verif/.work/run");
    let drain = args.get("drain").is_some();
    let cfg = Cfg::default();
    for beh in &behs {
        let rt = runtime(&flavour);
        let lines = rt.block_on(replay_scenario(&models, beh, &cfg, &workdir, drain));
        rt.shutdown_background();
        out.write(&lines);
    }
    out.flush();
    eprintln!("replay: {} behaviours, {} lines", behs.len(), out.lines);
    0
}

/// the engine's tree for every model of a family (C20, tree half)
pub fn trees(args: &Args) -> i32 {
    let models = read_ndjson(&args.str("models", ""));
    let mut out = Out::new(&args.str("out", "trees.ndjson"));
    for (mi, line) in models.iter().enumerate() {
        let tree = engine_tree(line["model"].as_str().unwrap());
        out.write(&[json!({"ev": "model", "name": line["name"], "model": line["spec"], "tree": tree,
            "inputs": line["inputs"][0], "x": {"mi": mi + 1}})]);
    }
    out.flush();
    0
}
