//! C16: generated acts, lifecycle hooks, push. Programs of the `gens` family (gen.py) are run under
//! the gate; after every client call the parked tasks are released in a random order until nothing
//! is left (any schedule must end in the same quiescent state), then the observation is recorded:
//! the open interrupts with the index path of the groups they sit in, how many groups each
//! generator has opened, how often every hook message was generated, the state of the process.
//! spec/TraceGen.tla compares each observation with spec/Gen.tla.

use crate::{Args, Out, read_ndjson, runtime};
use acts::{EngineBuilder, Vars, Workflow, verif};
use rand::rngs::StdRng;
use rand::seq::SliceRandom;
use rand::{Rng, SeedableRng};
use serde_json::{Value, json};
use std::collections::BTreeMap;

struct Obs {
    open: Vec<(String, Vec<i64>, String, String)>, // key, index path, value, tid
    line: Value,
}

/// release every parked task, in random order, until none is left
async fn drain(rng: &mut StdRng) -> bool {
    for _ in 0..2000 {
        if !crate::world::settle().await {
            return false;
        }
        let parked = verif::gate_list();
        if parked.is_empty() {
            return true;
        }
        let (p, t) = parked.choose(rng).unwrap().clone();
        verif::gate_release(&p, &t);
        if !crate::world::settle().await {
            return false;
        }
        // dispatch jobs are delivered in order (ungated channel semantics)
        loop {
            let jobs = verif::jobs_list();
            match jobs.iter().position(|(k, _, _)| k.starts_with("dispatch:")) {
                Some(i) => {
                    verif::job_run(i);
                }
                None => break,
            }
        }
    }
    false
}

fn observe(engine: &acts::Engine, pid: &str, hooks: &mut BTreeMap<String, i64>, op: Value, stuck: bool) -> Obs {
    // hook messages generated since the last observation
    for ev in verif::log_drain() {
        if ev["ev"] == "gen" && ev["what"] == "message" {
            if let Some(k) = ev["key"].as_str() {
                if k.starts_with("h_") {
                    *hooks.entry(k.to_string()).or_insert(0) += 1;
                }
            }
        }
    }
    let dump = verif::dump_proc(engine, pid).unwrap_or(json!({"state": "gone", "tasks": []}));
    let tasks = dump["tasks"].as_array().cloned().unwrap_or_default();
    let by_tid: std::collections::HashMap<String, &Value> = tasks.iter().map(|t| (t["tid"].as_str().unwrap().to_string(), t)).collect();
    // the parent of a task: the first task of a lower level up the prev chain
    let parent = |t: &Value| -> Option<&Value> {
        let level = t["level"].as_u64().unwrap_or(0);
        let mut cur = t["prev"].as_str().and_then(|p| by_tid.get(p).cloned());
        while let Some(c) = cur {
            if c["level"].as_u64().unwrap_or(0) < level {
                return Some(c);
            }
            cur = c["prev"].as_str().and_then(|p| by_tid.get(p).cloned());
        }
        None
    };
    let path_of = |t: &Value| -> Vec<i64> {
        // the $index of every enclosing group (block), outermost first
        let mut path = Vec::new();
        let mut cur = parent(t);
        while let Some(c) = cur {
            // (a group is a block opened by a generator; a block written in the program inherits
            // the options of the group it sits in and is not a group itself)
            let by_gen = parent(c).map(|g| g["uses"] == "acts.core.parallel" || g["uses"] == "acts.core.sequence").unwrap_or(false);
            if c["uses"] == "acts.core.block" && by_gen {
                if let Some(i) = c["opts"]["$index"].as_i64() {
                    path.push(i);
                }
            }
            cur = parent(c);
        }
        path.reverse();
        path
    };
    let mut open = Vec::new();
    let mut open_json = Vec::new();
    let mut groups: BTreeMap<String, i64> = BTreeMap::new();
    let mut acts_by_key: BTreeMap<String, i64> = BTreeMap::new();
    for t in &tasks {
        if t["kind"] != "act" {
            continue;
        }
        let key = t["key"].as_str().unwrap_or("").to_string();
        let uses = t["uses"].as_str().unwrap_or("");
        if key.starts_with("h_") {
            continue;
        }
        if uses == "acts.core.block" {
            // a group opened by a generator: counted under the generator's key and path
            if let Some(g) = parent(t) {
                if g["uses"] == "acts.core.parallel" || g["uses"] == "acts.core.sequence" {
                    let gp: Vec<String> = path_of(g).iter().map(|i| i.to_string()).collect();
                    *groups.entry(format!("{}/{}", g["key"].as_str().unwrap_or(""), gp.join("."))).or_insert(0) += 1;
                }
            }
            if !key.is_empty() {
                *acts_by_key.entry(key.clone()).or_insert(0) += 1;
            }
            continue;
        }
        *acts_by_key.entry(key.clone()).or_insert(0) += 1;
        if uses == "acts.core.irq" && t["state"] == "interrupted" {
            let path = path_of(t);
            let idx = t["opts"]["$index"].as_i64().unwrap_or(-1);
            let val = t["opts"]["$value"].as_str().unwrap_or("nil").to_string();
            open_json.push(json!({"key": key, "path": path, "index": idx, "value": val}));
            open.push((key, path, val, t["tid"].as_str().unwrap().to_string()));
        }
    }
    let step = tasks.iter().find(|t| t["nid"] == "s1");
    let line = json!({"ev": "gen", "op": op, "open": open_json,
        "groups": groups.iter().map(|(k, v)| json!({"g": k, "n": v})).collect::<Vec<_>>(),
        "acts": acts_by_key.iter().map(|(k, v)| json!({"key": k, "n": v})).collect::<Vec<_>>(),
        "hooks": hooks.iter().map(|(k, v)| json!({"key": k, "n": v})).collect::<Vec<_>>(),
        "ps": dump["state"], "step": step.map(|t| t["state"].clone()).unwrap_or(json!("nil")),
        "stuck": stuck});
    Obs { open, line }
}

pub async fn scenario(line: &Value, rng: &mut StdRng, workdir: &str, sc: usize, pushes: bool) -> Vec<Value> {
    verif::reset();
    std::fs::create_dir_all(workdir).unwrap();
    let cfgfile = format!("{workdir}/gen-{}-{sc}.toml", std::process::id());
    std::fs::write(&cfgfile, "tick_interval_secs = 3600\nkeep_processes = true\n").unwrap();
    let engine = EngineBuilder::new().set_config_source(std::path::Path::new(&cfgfile)).build().await.expect("engine").start();
    let _ = std::fs::remove_file(&cfgfile);
    let start = std::time::Instant::now();
    while verif::ticks() < 1 && start.elapsed() < std::time::Duration::from_secs(5) {
        tokio::task::yield_now().await;
    }
    crate::world::settle().await;
    verif::log_enable(true);
    verif::gate_arm(true);
    verif::dispatch_arm(true);
    let exec = engine.executor();
    let mut lines = vec![json!({"ev": "genmodel", "name": line["name"], "prog": line["prog"]})];
    let wf = match Workflow::from_json(line["model"].as_str().unwrap()) {
        Ok(w) => w,
        Err(e) => {
            lines.push(json!({"ev": "note", "what": "model rejected", "err": e.to_string()}));
            return lines;
        }
    };
    exec.model().deploy(&wf).unwrap();
    let mut vars = Vars::new();
    vars.insert("pid".to_string(), json!("p1"));
    exec.proc().start("g", &vars).unwrap();
    let mut hooks: BTreeMap<String, i64> = BTreeMap::new();
    let ok = drain(rng).await;
    let mut obs = observe(&engine, "p1", &mut hooks, json!({"a": "Start"}), !ok);
    lines.push(obs.line.clone());
    let mut npush = 0;
    for _ in 0..40 {
        if !ok || obs.open.is_empty() {
            break;
        }
        // sometimes push one more interrupt into the open step
        if pushes && npush < 2 && rng.gen_bool(0.25) {
            let dump = verif::dump_proc(&engine, "p1").unwrap();
            let step = dump["tasks"].as_array().unwrap().iter().find(|t| t["nid"] == "s1").cloned();
            if let Some(st) = step {
                npush += 1;
                let key = format!("p{npush}");
                let mut v = Vars::new();
                v.insert("uses".to_string(), json!("acts.core.irq"));
                v.insert("key".to_string(), json!(key));
                let res = exec.act().push("p1", st["tid"].as_str().unwrap(), &v);
                let ok2 = drain(rng).await;
                obs = observe(&engine, "p1", &mut hooks, json!({"a": "Push", "key": key, "res": if res.is_ok() { "ok" } else { "err" },
                    "stepstate": st["state"]}), !ok2);
                lines.push(obs.line.clone());
                continue;
            }
        }
        let (key, path, _val, tid) = obs.open.choose(rng).unwrap().clone();
        let res = exec.act().complete("p1", &tid, &Vars::new());
        let ok2 = drain(rng).await;
        obs = observe(&engine, "p1", &mut hooks, json!({"a": "Complete", "key": key, "path": path,
            "res": if res.is_ok() { "ok" } else { "err" }}), !ok2);
        lines.push(obs.line.clone());
        if !ok2 {
            break;
        }
    }
    lines
}

pub fn run(args: &Args) -> i32 {
    let models = read_ndjson(&args.str("models", ""));
    let mut out = Out::new(&args.str("out", "gen.ndjson"));
    let seed = args.num("seed", 1);
    let runs = args.num("runs", models.len() as u64) as usize;
    let offset = args.num("offset", 0) as usize;
    let workdir = args.str("workdir", "/verif/.work/run");
    let pushes = args.get("push").is_some();
    let mut rng = StdRng::seed_from_u64(seed);
    let rt = runtime("ct");
    for i in 0..runs {
        let line = &models[(offset + i) % models.len()];
        let lines = rt.block_on(scenario(line, &mut rng, &workdir, i, pushes));
        out.write(&lines);
    }
    out.flush();
    eprintln!("gen: {} runs, {} lines", runs, out.lines);
    0
}
