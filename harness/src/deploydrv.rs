//! C20: model registry. Random sequences of deploy / rm / start over a few model ids (valid and
//! invalid models, with 0..2 `on` events); after every operation the registry as the API shows it
//! (model versions, stored text equal to the deployed model, registered events) is recorded.
//! spec/TraceDeploy.tla replays the sequence on spec/Deploy.tla.

use crate::{Args, Out};
use acts::{EngineBuilder, ExecutorQuery, Vars, Workflow, verif};
use rand::rngs::StdRng;
use rand::seq::SliceRandom;
use rand::{Rng, SeedableRng};
use serde_json::{Value, json};

fn model(mid: &str, variant: usize, ons: &[&str], bad: &str) -> Value {
    let mut steps = vec![json!({"id": "s1", "name": format!("v{variant} ü"), "acts": [{"id": "a1", "uses": "acts.core.irq"}]})];
    match bad {
        "dupstep" => steps.push(json!({"id": "s1"})),
        "dupact" => steps.push(json!({"id": "s2", "acts": [{"id": "a1", "uses": "acts.core.msg"}]})),
        _ => steps.push(json!({"id": "s2"})),
    }
    let on: Vec<Value> = ons.iter().map(|o| json!({"id": o, "uses": "acts.event.manual"})).collect();
    let mut m = json!({"id": mid, "name": format!("{mid}-{variant}"), "tag": "t", "steps": steps, "on": on});
    if bad == "dupon" {
        m["on"] = json!([{"id": "s1", "uses": "acts.event.manual"}]);
    }
    m
}

pub async fn scenario(sqlite: bool, ops: usize, rng: &mut StdRng, workdir: &str, sc: usize) -> Vec<Value> {
    verif::reset();
    std::fs::create_dir_all(workdir).unwrap();
    let dbfile = format!("{workdir}/deploy-{}-{sc}.db", std::process::id());
    let _ = std::fs::remove_file(&dbfile);
    let mut cfg = "tick_interval_secs = 3600\nkeep_processes = true\n".to_string();
    if sqlite {
        cfg.push_str(&format!("[sqlite]\ndatabase_url = \"{dbfile}\"\n"));
    }
    let cfgfile = format!("{workdir}/deploy-{}-{sc}.toml", std::process::id());
    std::fs::write(&cfgfile, cfg).unwrap();
    let mut builder = EngineBuilder::new().set_config_source(std::path::Path::new(&cfgfile));
    if sqlite {
        builder = builder.add_plugin(&acts_store_sqlite::SqliteStore);
    }
    let engine = builder.build().await.expect("engine").start();
    let _ = std::fs::remove_file(&cfgfile);
    let exec = engine.executor();
    let mids = ["m1", "m2", ""];
    let mut lines = vec![json!({"ev": "deploymodel", "backend": if sqlite { "sqlite" } else { "mem" }})];
    let mut last_text: std::collections::HashMap<String, Value> = Default::default();
    let mut pidn = 0;
    for _ in 0..ops {
        let r: f64 = rng.r#gen();
        let mut line;
        if r < 0.55 {
            let mid = if rng.gen_bool(0.06) { mids[2] } else { mids[rng.gen_range(0..2)] };
            let bad = if rng.gen_bool(0.2) { *["dupstep", "dupact", "dupon"].choose(rng).unwrap() } else { "" };
            let ons: Vec<&str> = match rng.gen_range(0..4) {
                0 => vec![],
                1 => vec!["e1"],
                2 => vec!["e2"],
                _ => vec!["e1", "e2"],
            };
            let m = model(mid, rng.gen_range(0..100), &ons, bad);
            let wf = Workflow::from_json(&m.to_string()).unwrap();
            let res = exec.model().deploy(&wf);
            let ok = res.is_ok();
            if ok {
                last_text.insert(mid.to_string(), serde_json::to_value(&wf).unwrap());
            }
            line = json!({"ev": "deploy", "op": "Deploy", "mid": mid, "valid": bad.is_empty() && !mid.is_empty(),
                "ons": if bad == "dupon" { vec!["s1"] } else { ons.clone() }, "ok": ok});
        } else if r < 0.75 {
            let mid = mids[rng.gen_range(0..2)];
            let res = exec.model().rm(mid);
            last_text.remove(mid);
            line = json!({"ev": "deploy", "op": "Rm", "mid": mid, "ok": res.is_ok()});
        } else {
            let mid = *["m1", "m2", "nope"].choose(rng).unwrap();
            pidn += 1;
            let mut vars = Vars::new();
            vars.insert("pid".to_string(), json!(format!("p{pidn}")));
            let res = exec.proc().start(mid, &vars);
            line = json!({"ev": "deploy", "op": "Start", "mid": mid, "ok": res.is_ok()});
        }
        // the registry as the API shows it
        let mut models = Vec::new();
        if let Ok(page) = exec.model().list(&ExecutorQuery::new().with_count(100)) {
            for mi in page.rows {
                let same = match (mi.workflow(), last_text.get(&mi.id)) {
                    (Ok(mut w), Some(want)) => {
                        w.set_ver(0);
                        let mut want = want.clone();
                        want["ver"] = json!(0);
                        serde_json::to_value(&w).unwrap() == want
                    }
                    _ => false,
                };
                models.push(json!({"mid": mi.id, "ver": mi.ver, "same": same}));
            }
        }
        let mut events = Vec::new();
        if let Ok(page) = exec.evt().list(&ExecutorQuery::new().with_count(100)) {
            for e in page.rows {
                events.push(json!({"id": e.id, "mid": e.mid}));
            }
        }
        line["models"] = json!(models);
        line["events"] = json!(events);
        lines.push(line);
    }
    let _ = std::fs::remove_file(&dbfile);
    lines
}

pub fn run(args: &Args) -> i32 {
    let mut out = Out::new(&args.str("out", "deploy.ndjson"));
    let seed = args.num("seed", 1);
    let runs = args.num("runs", 20) as usize;
    let ops = args.num("ops", 30) as usize;
    let workdir = args.str("workdir", "/verif/.work/run");
    let backend = args.str("backend", "mem");
    let mut rng = StdRng::seed_from_u64(seed);
    let rt = crate::runtime("ct");
    for i in 0..runs {
        let lines = rt.block_on(scenario(backend == "sqlite", ops, &mut rng, &workdir, i));
        out.write(&lines);
    }
    out.flush();
    eprintln!("deploy: {} runs, {} lines", runs, out.lines);
    0
}
