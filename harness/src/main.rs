//! Conformance harness: drives the real engine (built from /repo's working tree with the
//! `verif` hooks) and records NDJSON traces that the TLA+ trace specifications check.

mod ack;
mod chandrv;
mod datadrv;
mod deploydrv;
mod scriptdrv;
mod drivers;
mod gendrv;
mod multidrv;
mod storedrv;
mod tree;
mod world;

use serde_json::Value;
use std::collections::HashMap;
use std::io::Write;

pub struct Args {
    pub cmd: String,
    pub opts: HashMap<String, String>,
}

impl Args {
    pub fn get(&self, k: &str) -> Option<&str> {
        self.opts.get(k).map(|s| s.as_str())
    }
    pub fn str(&self, k: &str, d: &str) -> String {
        self.get(k).unwrap_or(d).to_string()
    }
    pub fn num(&self, k: &str, d: u64) -> u64 {
        self.get(k).map(|v| v.parse().expect(k)).unwrap_or(d)
    }
    pub fn flt(&self, k: &str, d: f64) -> f64 {
        self.get(k).map(|v| v.parse().expect(k)).unwrap_or(d)
    }
}

fn parse_args() -> Args {
    let mut it = std::env::args().skip(1);
    let cmd = it.next().unwrap_or_else(|| "help".to_string());
    let mut opts = HashMap::new();
    let rest: Vec<String> = it.collect();
    let mut i = 0;
    while i < rest.len() {
        let k = rest[i].trim_start_matches("--").to_string();
        if i + 1 < rest.len() && !rest[i + 1].starts_with("--") {
            opts.insert(k, rest[i + 1].clone());
            i += 2;
        } else {
            opts.insert(k, "true".to_string());
            i += 1;
        }
    }
    Args { cmd, opts }
}

pub fn read_ndjson(path: &str) -> Vec<Value> {
    let text = std::fs::read_to_string(path).unwrap_or_else(|e| panic!("read {path}: {e}"));
    text.lines()
        .filter(|l| !l.trim().is_empty())
        .map(|l| serde_json::from_str(l).unwrap_or_else(|e| panic!("parse {path}: {e}")))
        .collect()
}

/// The TLC Json module rejects null, wraps integers beyond 32 bits and truncates fractions:
/// null becomes "nil", every number outside the i32 range or with a fraction becomes text.
pub fn sanitize(v: &Value) -> Value {
    match v {
        Value::Null => Value::String("nil".to_string()),
        Value::Number(n) => match n.as_i64() {
            Some(i) if i >= i32::MIN as i64 && i <= i32::MAX as i64 => v.clone(),
            _ => Value::String(n.to_string()),
        },
        Value::Array(a) => Value::Array(a.iter().map(sanitize).collect()),
        Value::Object(m) => Value::Object(m.iter().map(|(k, v)| (k.clone(), sanitize(v))).collect()),
        _ => v.clone(),
    }
}

pub struct Out {
    file: std::io::BufWriter<std::fs::File>,
    pub lines: usize,
}

impl Out {
    pub fn new(path: &str) -> Out {
        if let Some(dir) = std::path::Path::new(path).parent() {
            std::fs::create_dir_all(dir).ok();
        }
        Out {
            file: std::io::BufWriter::new(std::fs::File::create(path).expect(path)),
            lines: 0,
        }
    }
    pub fn write(&mut self, lines: &[Value]) {
        for l in lines {
            let l = sanitize(l);
            writeln!(self.file, "{}", serde_json::to_string(&l).unwrap()).unwrap();
            self.lines += 1;
        }
    }
    pub fn flush(&mut self) {
        self.file.flush().unwrap();
    }
}

pub fn runtime(flavour: &str) -> tokio::runtime::Runtime {
    match flavour {
        "ct" => tokio::runtime::Builder::new_current_thread()
            .enable_all()
            .build()
            .unwrap(),
        f if f.starts_with("mt") => {
            let n: usize = f[2..].parse().unwrap_or(2);
            tokio::runtime::Builder::new_multi_thread()
                .worker_threads(n)
                .enable_all()
                .build()
                .unwrap()
        }
        _ => panic!("unknown runtime flavour {flavour}"),
    }
}

fn main() {
    let args = parse_args();
    let code = match args.cmd.as_str() {
        "random" => drivers::random(&args),
        "replay" => drivers::replay(&args),
        "natural" => drivers::natural(&args),
        "explore" => drivers::explore(&args),
        "ack" => ack::run(&args),
        "store" => storedrv::run(&args),
        "deploy" => deploydrv::run(&args),
        "chan" => chandrv::run(&args),
        "script" => scriptdrv::run(&args),
        "multi" => multidrv::run(&args),
        "gen" => gendrv::run(&args),
        "data" => datadrv::run(&args),
        "tree" => drivers::trees(&args),
        _ => {
            eprintln!("usage: harness <random|replay|tree> --models F --out F [--seed N] ...");
            2
        }
    };
    std::process::exit(code);
}
