//! Normalise the engine's node-tree dump into the table shape of spec/Tree.tla.

use serde_json::{Value, json};

pub fn uses_class(uses: &str) -> String {
    match uses {
        "" => "".to_string(),
        "acts.core.irq" => "irq".to_string(),
        "acts.core.msg" => "msg".to_string(),
        "acts.core.parallel" => "parallel".to_string(),
        "acts.core.sequence" => "sequence".to_string(),
        "acts.core.block" => "block".to_string(),
        "acts.core.subflow" => "sub".to_string(),
        "acts.core.action" => "action".to_string(),
        "acts.transform.set" => "set".to_string(),
        "acts.transform.code" => "code".to_string(),
        "no.such.pack" => "bad".to_string(),
        other => other.to_string(),
    }
}

fn content_of(n: &Value) -> (&str, &Value) {
    let c = &n["content"];
    for k in ["Workflow", "Step", "Branch", "Act"] {
        if let Some(v) = c.get(k) {
            return (k, v);
        }
    }
    ("", &Value::Null)
}

fn visit(n: &Value, out: &mut Vec<Value>) {
    let (_, c) = content_of(n);
    let mut kids = Vec::new();
    let mut ckids = Vec::new();
    let mut tkids = Vec::new();
    for ch in n["children"].as_array().unwrap() {
        let id = ch["node"]["id"].clone();
        match ch["typ"].as_str().unwrap() {
            "Normal" => kids.push(id),
            "Catch" => ckids.push(json!({"on": ch["on"], "id": id})),
            "Timeout" => tkids.push(json!({"on": ch["on"], "id": id})),
            _ => {}
        }
    }
    let catches: Vec<Value> = c
        .get("catches")
        .and_then(|v| v.as_array())
        .map(|a| {
            a.iter()
                .map(|x| match x.get("on") {
                    Some(Value::String(s)) => json!(s),
                    _ => json!("nil"),
                })
                .collect()
        })
        .unwrap_or_default();
    let timeouts: Vec<Value> = c
        .get("timeout")
        .and_then(|v| v.as_array())
        .map(|a| a.iter().map(|x| json!({"on": x["on"]})).collect())
        .unwrap_or_default();
    let needs: Vec<Value> = c
        .get("needs")
        .and_then(|v| v.as_array())
        .cloned()
        .unwrap_or_default();
    out.push(json!({
        "id": n["id"],
        "kind": n["kind"],
        "level": n["level"],
        "parent": n["parent_raw"],
        "prev": n["prev"],
        "next": n["next"],
        "kids": kids,
        "ckids": ckids,
        "tkids": tkids,
        "else": c.get("else").and_then(|v| v.as_bool()).unwrap_or(false),
        "needs": needs,
        "uses": uses_class(n["uses"].as_str().unwrap_or("")),
        "hascond": c.get("if").map(|v| !v.is_null()).unwrap_or(false),
        "catches": catches,
        "timeouts": timeouts,
    }));
    for ch in n["children"].as_array().unwrap() {
        visit(&ch["node"], out);
    }
    if n["follow"].is_object() {
        visit(&n["follow"], out);
    }
}

/// the table: a list of node records in depth-first order
pub fn table(dump: &Value) -> Value {
    let mut out = Vec::new();
    visit(&dump["root"], &mut out);
    Value::Array(out)
}
