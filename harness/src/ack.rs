//! C09: acknowledged delivery. Random operation sequences over the messages of one process,
//! on the in-memory store and on SQLite, driven through the virtual clock and the manual tick;
//! every step records the stored rows and the deliveries the acknowledging channel saw.
//! spec/TraceAck.tla replays each sequence on spec/AckRetry.tla.

use crate::{Args, Out};
use acts::{ChannelOptions, EngineBuilder, Vars, Workflow, verif};
use rand::rngs::StdRng;
use rand::{Rng, SeedableRng};
use serde_json::{Value, json};
use std::sync::{Arc, Mutex};

const BASE_MS: i64 = 1_000_000_000_000; // far enough from 0 that an untouched row is always stale
const UNIT_MS: i64 = 1_800_000; // one spec time unit = 1800 s; the retry interval is 2 units

fn model(n: usize) -> String {
    let branches: Vec<Value> = (1..=n)
        .map(|i| {
            json!({"id": format!("b{i}"), "if": "true",
                   "steps": [{"id": format!("s{i}"), "acts": [{"id": format!("a{i}"), "uses": "acts.core.irq", "key": format!("k{i}")}]}]})
        })
        .collect();
    json!({"id": "ackm", "name": "ackm", "steps": [{"id": "s0", "branches": branches}]}).to_string()
}

async fn settle() {
    crate::world::settle().await;
}

fn flush() {
    loop {
        let jobs = verif::jobs_list();
        match jobs.iter().position(|(k, _, _)| k.starts_with("dispatch:")) {
            Some(i) => {
                verif::job_run(i);
            }
            None => break,
        }
    }
}

pub async fn scenario(n: usize, max_retry: i32, sqlite: bool, ops: usize, rng: &mut StdRng, workdir: &str, sc: usize) -> Vec<Value> {
    verif::reset();
    std::fs::create_dir_all(workdir).unwrap();
    let dbfile = format!("{workdir}/ack-{}-{sc}.db", std::process::id());
    let _ = std::fs::remove_file(&dbfile);
    let mut cfg = format!("cache_cap = 1024\ntick_interval_secs = 3600\nmax_message_retry_times = {max_retry}\nkeep_processes = true\n");
    if sqlite {
        cfg.push_str(&format!("[sqlite]\ndatabase_url = \"{dbfile}\"\n"));
    }
    let cfgfile = format!("{workdir}/ack-{}-{sc}.toml", std::process::id());
    std::fs::write(&cfgfile, cfg).unwrap();
    let mut builder = EngineBuilder::new().set_config_source(std::path::Path::new(&cfgfile));
    if sqlite {
        builder = builder.add_plugin(&acts_store_sqlite::SqliteStore);
    }
    let engine = builder.build().await.expect("engine").start();
    let _ = std::fs::remove_file(&cfgfile);
    let start = std::time::Instant::now();
    while verif::ticks() < 1 && start.elapsed() < std::time::Duration::from_secs(5) {
        tokio::task::yield_now().await;
    }
    settle().await;
    verif::clock_set(BASE_MS);
    verif::gate_arm(true);
    verif::spawn_arm(true);
    verif::dispatch_arm(true);

    // the acknowledging channel: only the created messages of acts
    let deliveries: Arc<Mutex<Vec<Value>>> = Arc::new(Mutex::new(Vec::new()));
    let chan = engine.channel_with_options(&ChannelOptions {
        id: "ackchan".to_string(),
        ack: true,
        r#type: "act".to_string(),
        state: "created".to_string(),
        ..Default::default()
    });
    {
        let deliveries = deliveries.clone();
        let store = verif::store(&engine);
        chan.on_message(move |e| {
            // is the message on record when the handler runs?
            let stored = store.messages().find(&e.id).is_ok();
            deliveries.lock().unwrap().push(json!({"mid": e.id, "tid": e.tid, "key": e.key,
                "retry": e.retry_times, "stored": stored}));
        });
    }
    // ... and the final message of the process (workflow completed): it is generated when nothing
    // is running any more, and must be re-sent like any other
    let chan2 = engine.channel_with_options(&ChannelOptions {
        id: "ackfinal".to_string(),
        ack: true,
        r#type: "workflow".to_string(),
        state: "completed".to_string(),
        ..Default::default()
    });
    {
        let deliveries = deliveries.clone();
        let store = verif::store(&engine);
        chan2.on_message(move |e| {
            let stored = store.messages().find(&e.id).is_ok();
            deliveries.lock().unwrap().push(json!({"mid": e.id, "tid": "final", "key": e.key,
                "retry": e.retry_times, "stored": stored}));
        });
    }
    let exec = engine.executor();
    let wf = Workflow::from_json(&model(n)).unwrap();
    exec.model().deploy(&wf).unwrap();
    let mut vars = Vars::new();
    vars.insert("pid".to_string(), json!("p1"));
    exec.proc().start("ackm", &vars).unwrap();
    // launch, then run everything except the acts themselves
    let li = verif::jobs_list().iter().position(|(k, _, _)| k == "launch").unwrap();
    verif::job_run(li);
    settle().await;
    loop {
        let dump = verif::dump_proc(&engine, "p1").unwrap();
        let parked = verif::gate_list();
        let next = parked.iter().find(|(_, tid)| {
            dump["tasks"].as_array().unwrap().iter().any(|t| t["tid"] == json!(tid) && t["kind"] != "act")
        });
        match next {
            Some((p, t)) => {
                verif::gate_release(p, t);
                settle().await;
                flush();
            }
            None => break,
        }
    }
    deliveries.lock().unwrap().clear();
    // act tids by index
    let dump = verif::dump_proc(&engine, "p1").unwrap();
    let mut tids: Vec<String> = vec![String::new(); n + 2];
    tids[n + 1] = "final".to_string();
    for t in dump["tasks"].as_array().unwrap() {
        if t["kind"] == "act" {
            let nid = t["nid"].as_str().unwrap();
            let i: usize = nid[1..].parse().unwrap();
            tids[i] = t["tid"].as_str().unwrap().to_string();
        }
    }
    let mut mids: Vec<String> = vec![String::new(); n + 2]; // message ids once emitted (n+1: the final one)
    let mut acted: Vec<bool> = vec![false; n + 2];
    let mut lines = vec![json!({"ev": "ackmodel", "n": n, "max": max_retry, "backend": if sqlite { "sqlite" } else { "mem" },
        "interval": 2})];

    let store = verif::store(&engine);
    let index_of = |tid: &str, tids: &Vec<String>| tids.iter().position(|t| t == tid).unwrap_or(0);
    for _ in 0..ops {
        let now_units = (verif::clock_now() - BASE_MS) / UNIT_MS;
        let unsent: Vec<usize> = (1..=n).filter(|i| mids[*i].is_empty()).collect();
        let sent: Vec<usize> = (1..=n + 1).filter(|i| !mids[*i].is_empty()).collect();
        // pick an operation
        let r: f64 = rng.r#gen();
        let (op, id): (&str, i64) = if !unsent.is_empty() && (sent.is_empty() || r < 0.15) {
            ("Emit", unsent[rng.gen_range(0..unsent.len())] as i64)
        } else if r < 0.45 {
            ("Tick", 0)
        } else if r < 0.65 && now_units + 3 <= 40 {
            ("Advance", if rng.gen_bool(0.5) { 1 } else { 3 })
        } else if r < 0.75 && !sent.is_empty() {
            ("Ack", sent[rng.gen_range(0..sent.len())] as i64)
        } else if r < 0.83 && sent.iter().any(|i| *i <= n && !acted[*i]) {
            let c: Vec<usize> = sent.iter().cloned().filter(|i| *i <= n && !acted[*i]).collect();
            ("ActOn", c[rng.gen_range(0..c.len())] as i64)
        } else if r < 0.90 {
            ("Redo", 0)
        } else if r < 0.95 {
            ("ClearPid", 0)
        } else if r < 0.97 {
            ("ClearAll", 0)
        } else {
            ("Tick", 0)
        };
        match op {
            "Emit" => {
                verif::gate_release("p1", &tids[id as usize]);
                settle().await;
                flush();
            }
            "Tick" => {
                verif::tick(&engine);
                flush();
                settle().await;
                flush();
            }
            "Advance" => {
                verif::clock_advance(id * UNIT_MS);
            }
            "Ack" => {
                let _ = exec.msg().ack(&mids[id as usize]);
            }
            "ActOn" => {
                let _ = exec.act().complete("p1", &tids[id as usize], &Vars::new());
                acted[id as usize] = true;
                settle().await;
                flush();
            }
            "Redo" => {
                let _ = exec.msg().redo();
            }
            "ClearPid" => {
                let _ = exec.msg().clear(Some("p1".to_string()));
            }
            "ClearAll" => {
                let _ = exec.msg().clear(None);
            }
            _ => {}
        }
        // deliveries of this step
        let mut deliv = Vec::new();
        for d in deliveries.lock().unwrap().drain(..) {
            let i = index_of(d["tid"].as_str().unwrap_or(""), &tids);
            if i > 0 && mids[i].is_empty() {
                mids[i] = d["mid"].as_str().unwrap().to_string();
            }
            let same_id = i > 0 && mids[i] == d["mid"].as_str().unwrap_or("");
            deliv.push(json!({"id": i, "retry": d["retry"], "stored": d["stored"], "sameid": same_id}));
        }
        // stored rows by message index
        let mut rows = Vec::new();
        for i in 1..=n + 1 {
            if mids[i].is_empty() {
                continue;
            }
            if let Ok(m) = store.messages().find(&mids[i]) {
                let upd = if m.update_time == 0 { -1 } else { (m.update_time - BASE_MS) / UNIT_MS };
                rows.push(json!({"id": i, "status": m.status.to_string(), "retry": m.retry_times, "upd": upd}));
            }
        }
        lines.push(json!({"ev": "ack", "op": op, "id": id, "rows": rows, "deliv": deliv,
            "now": (verif::clock_now() - BASE_MS) / UNIT_MS}));
    }
    let _ = std::fs::remove_file(&dbfile);
    lines
}

pub fn run(args: &Args) -> i32 {
    let mut out = Out::new(&args.str("out", "ack.ndjson"));
    let seed = args.num("seed", 1);
    let runs = args.num("runs", 20) as usize;
    let ops = args.num("ops", 25) as usize;
    let workdir = args.str("workdir", "/verif/.work/run");
    let backend = args.str("backend", "mem");
    let mut rng = StdRng::seed_from_u64(seed);
    let rt = crate::runtime("ct");
    let n = args.num("n", 2) as usize;
    let max_retry = args.num("max", 2) as i32;
    for i in 0..runs {
        let lines = rt.block_on(scenario(n, max_retry, backend == "sqlite", ops, &mut rng, &workdir, i));
        out.write(&lines);
    }
    out.flush();
    eprintln!("ack: {} runs, {} lines", runs, out.lines);
    0
}
