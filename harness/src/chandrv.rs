//! C18: channels. A workflow with tagged steps and keyed acts is run under the gate while channels
//! with random glob options are registered, re-registered, closed and unsubscribed; for every
//! generated message the set of channels whose handler ran is recorded next to the message's
//! fields. Patterns are generated as TOKEN sequences and rendered to text here, so that
//! spec/Glob.tla is an oracle independent of the globset crate.

use crate::{Args, Out};
use acts::{ChannelOptions, EngineBuilder, Vars, Workflow, verif};
use rand::rngs::StdRng;
use rand::seq::SliceRandom;
use rand::{Rng, SeedableRng};
use serde_json::{Value, json};
use std::sync::{Arc, Mutex};

fn chars(s: &str) -> Value {
    json!(s.chars().map(|c| c.to_string()).collect::<Vec<_>>())
}

/// random pattern tokens over `alphabet`, plus literal words from `vocab`
fn gen_tokens(rng: &mut StdRng, vocab: &[&str], alphabet: &[char], depth: usize) -> Vec<Value> {
    let lit = |w: &str| -> Vec<Value> { w.chars().map(|c| json!({"t": "lit", "c": c.to_string()})).collect() };
    let r: f64 = rng.r#gen();
    if r < 0.2 {
        return vec![json!({"t": "star"})];
    }
    if r < 0.4 {
        return lit(vocab.choose(rng).unwrap());
    }
    let mut out = Vec::new();
    for _ in 0..rng.gen_range(1..4) {
        let k: f64 = rng.r#gen();
        if k < 0.35 {
            out.push(json!({"t": "lit", "c": alphabet.choose(rng).unwrap().to_string()}));
        } else if k < 0.5 {
            out.push(json!({"t": "star"}));
        } else if k < 0.62 {
            out.push(json!({"t": "any"}));
        } else if k < 0.78 {
            let n = rng.gen_range(1..3);
            let set: Vec<String> = (0..n).map(|_| alphabet.choose(rng).unwrap().to_string()).collect();
            out.push(json!({"t": "class", "neg": rng.gen_bool(0.4), "set": set}));
        } else if k < 0.9 && depth > 0 {
            let alts: Vec<Value> = (0..rng.gen_range(1..4))
                .map(|_| {
                    if rng.gen_bool(0.5) {
                        json!(lit(vocab.choose(rng).unwrap()))
                    } else {
                        json!(gen_tokens(rng, vocab, alphabet, depth - 1))
                    }
                })
                .collect();
            out.push(json!({"t": "alt", "alts": alts}));
        } else {
            out.extend(lit(vocab.choose(rng).unwrap()));
        }
    }
    out
}

fn render(tokens: &[Value]) -> String {
    let mut s = String::new();
    for t in tokens {
        match t["t"].as_str().unwrap() {
            "lit" => s.push_str(t["c"].as_str().unwrap()),
            "star" => s.push('*'),
            "any" => s.push('?'),
            "class" => {
                s.push('[');
                if t["neg"] == json!(true) {
                    s.push('!');
                }
                for c in t["set"].as_array().unwrap() {
                    s.push_str(c.as_str().unwrap());
                }
                s.push(']');
            }
            "alt" => {
                s.push('{');
                let alts: Vec<String> = t["alts"].as_array().unwrap().iter().map(|a| render(a.as_array().unwrap())).collect();
                s.push_str(&alts.join(","));
                s.push('}');
            }
            _ => {}
        }
    }
    s
}

fn model() -> String {
    json!({"id": "chm", "name": "chm", "tag": "ab", "steps": [
        {"id": "s1", "tag": "a", "acts": [
            {"id": "a1", "uses": "acts.core.irq", "key": "ab", "tag": "b"},
            {"id": "a2", "uses": "acts.core.msg", "key": "ba"},
            {"id": "a3", "uses": "acts.core.irq", "key": "abc", "tag": "ca"}]},
        {"id": "s2", "tag": "c", "branches": [
            {"id": "b1", "if": "true", "steps": [{"id": "s21", "acts": [{"id": "a4", "uses": "acts.core.irq", "key": "c", "tag": "a"}]}]},
            {"id": "b2", "else": true, "steps": [{"id": "s22"}]}]},
    ]}).to_string()
}

pub async fn scenario(rng: &mut StdRng, workdir: &str, sc: usize) -> Vec<Value> {
    verif::reset();
    std::fs::create_dir_all(workdir).unwrap();
    let cfgfile = format!("{workdir}/chan-{}-{sc}.toml", std::process::id());
    std::fs::write(&cfgfile, "tick_interval_secs = 3600\nkeep_processes = true\n").unwrap();
    let engine = EngineBuilder::new().set_config_source(std::path::Path::new(&cfgfile)).build().await.expect("engine").start();
    let _ = std::fs::remove_file(&cfgfile);
    let start = std::time::Instant::now();
    while verif::ticks() < 1 && start.elapsed() < std::time::Duration::from_secs(5) {
        tokio::task::yield_now().await;
    }
    crate::world::settle().await;
    verif::log_enable(true);
    verif::gate_arm(true);
    verif::spawn_arm(true);
    verif::dispatch_arm(true);
    let got: Arc<Mutex<Vec<(String, String)>>> = Arc::new(Mutex::new(Vec::new()));
    let exec = engine.executor();
    exec.model().deploy(&Workflow::from_json(&model()).unwrap()).unwrap();
    let mut vars = Vars::new();
    vars.insert("pid".to_string(), json!("p1"));
    exec.proc().start("chm", &vars).unwrap();
    let mut lines = vec![json!({"ev": "chanmodel"})];
    let ids = ["c1", "c2", "c3"];
    let mut handles: std::collections::HashMap<String, Arc<acts::Channel>> = Default::default();
    let alpha = ['a', 'b', 'c'];
    let types = ["workflow", "step", "act", "branch"];
    let states = ["created", "completed", "skipped", "error", "aborted"];
    let words = ["a", "ab", "abc", "ba", "c", "ca", "b"];
    let uses = ["acts.core.irq", "acts.core.msg"];
    let ualpha = ['a', 'c', '.', 'i', 'm'];
    for _ in 0..60 {
        // a channel operation, sometimes
        if rng.gen_bool(0.45) {
            let id = *ids.choose(rng).unwrap();
            let r: f64 = rng.r#gen();
            if r < 0.7 {
                let mk = |rng: &mut StdRng, vocab: &[&str], al: &[char]| -> Vec<Value> {
                    if rng.gen_bool(0.65) { vec![json!({"t": "star"})] } else { gen_tokens(rng, vocab, al, 1) }
                };
                let o = json!({"type": mk(rng, &types, &['a', 's', 't', 'e']), "state": mk(rng, &states, &['c', 'e', 'r']),
                    "tag": mk(rng, &words, &alpha), "key": mk(rng, &words, &alpha), "uses": mk(rng, &uses, &ualpha)});
                let opts = ChannelOptions {
                    id: id.to_string(),
                    ack: false,
                    r#type: render(o["type"].as_array().unwrap()),
                    state: render(o["state"].as_array().unwrap()),
                    tag: render(o["tag"].as_array().unwrap()),
                    key: render(o["key"].as_array().unwrap()),
                    uses: render(o["uses"].as_array().unwrap()),
                };
                // a pattern text globset refuses would panic in Channel::channel: skip those
                let texts = [&opts.r#type, &opts.state, &opts.tag, &opts.key, &opts.uses];
                if texts.iter().any(|t| t.contains("{}") || t.contains(",}") || t.contains("{,") || t.contains(",,") || t.contains("[]") || t.contains("[!]")) {
                    continue;
                }
                let chan = engine.channel_with_options(&opts);
                let g = got.clone();
                let cid = id.to_string();
                chan.on_message(move |e| {
                    g.lock().unwrap().push((cid.clone(), e.id.clone()));
                });
                handles.insert(id.to_string(), chan);
                lines.push(json!({"ev": "chan", "op": "Register", "id": id, "opts": o,
                    "text": {"type": opts.r#type, "state": opts.state, "tag": opts.tag, "key": opts.key, "uses": opts.uses}}));
            } else if r < 0.85 {
                if let Some(c) = handles.get(id) {
                    c.close();
                }
                lines.push(json!({"ev": "chan", "op": "Close", "id": id}));
            } else {
                let _ = exec.msg().unsub(id);
                lines.push(json!({"ev": "chan", "op": "Unsub", "id": id}));
            }
            continue;
        }
        // an engine step: launch, exec a parked task, or answer an open interrupt
        let jobs = verif::jobs_list();
        if let Some(i) = jobs.iter().position(|(k, _, _)| k == "launch") {
            verif::job_run(i);
        } else {
            let parked = verif::gate_list();
            if !parked.is_empty() {
                let (p, t) = parked.choose(rng).unwrap().clone();
                verif::gate_release(&p, &t);
            } else {
                let dump = verif::dump_proc(&engine, "p1");
                let open: Vec<String> = dump
                    .map(|d| d["tasks"].as_array().unwrap().iter()
                        .filter(|t| t["kind"] == "act" && t["state"] == "interrupted")
                        .map(|t| t["tid"].as_str().unwrap().to_string()).collect())
                    .unwrap_or_default();
                match open.choose(rng) {
                    Some(tid) => {
                        let a = exec.act();
                        let _ = match rng.gen_range(0..4) {
                            0 => a.skip("p1", tid, &Vars::new()),
                            1 => a.abort("p1", tid, &Vars::new()),
                            _ => a.complete("p1", tid, &Vars::new()),
                        };
                    }
                    None => break,
                }
            }
        }
        crate::world::settle().await;
        // deliver what was generated, then attribute
        loop {
            let jobs = verif::jobs_list();
            match jobs.iter().position(|(k, _, _)| k.starts_with("dispatch:")) {
                Some(i) => {
                    verif::job_run(i);
                }
                None => break,
            }
        }
        let recv: Vec<(String, String)> = got.lock().unwrap().drain(..).collect();
        for ev in verif::log_drain() {
            if ev["ev"] == "gen" && ev["what"] == "message" {
                let id = ev["id"].as_str().unwrap();
                let who: Vec<&String> = recv.iter().filter(|(_, m)| m == id).map(|(c, _)| c).collect();
                lines.push(json!({"ev": "chan", "op": "Emit", "got": who,
                    "msg": {"type": chars(ev["type"].as_str().unwrap()), "state": chars(ev["state"].as_str().unwrap()),
                            "tag": chars(ev["tag"].as_str().unwrap()), "mtag": chars(ev["mtag"].as_str().unwrap()),
                            "key": chars(ev["key"].as_str().unwrap()), "uses": chars(ev["uses"].as_str().unwrap())},
                    "text": {"type": ev["type"], "state": ev["state"], "tag": ev["tag"], "mtag": ev["mtag"], "key": ev["key"], "uses": ev["uses"]}}));
            }
        }
    }
    lines
}

pub fn run(args: &Args) -> i32 {
    let mut out = Out::new(&args.str("out", "chan.ndjson"));
    let seed = args.num("seed", 1);
    let runs = args.num("runs", 20) as usize;
    let workdir = args.str("workdir", "/verif/.work/run");
    let mut rng = StdRng::seed_from_u64(seed);
    let rt = crate::runtime("ct");
    for i in 0..runs {
        let lines = rt.block_on(scenario(&mut rng, &workdir, i));
        out.write(&lines);
    }
    out.flush();
    eprintln!("chan: {} runs, {} lines", runs, out.lines);
    0
}
