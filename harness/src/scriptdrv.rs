//! C14: the script boundary and parameter templates. The cases come from TLC (spec/MCScript.tla
//! enumerates template strings as segment sequences and value shapes x routes); this driver runs
//! each through the real engine and records what was observed. spec/TraceScript.tla compares
//! every observation with spec/Script.tla.
//!
//! Values are recorded as canonical JSON text (sorted keys, numbers by value, non-ASCII text as
//! \uXXXX): TLC's Json module has neither 64-bit integers nor floats.

use crate::{Args, Out};
use acts::{ChannelOptions, EngineBuilder, Vars, Workflow, verif};
use serde_json::{Map, Value, json};
use std::sync::{Arc, Mutex};

/// \uXXXX (as literal text) -> the character
fn deascii(s: &str) -> String {
    let mut out = String::new();
    let b: Vec<char> = s.chars().collect();
    let mut i = 0;
    while i < b.len() {
        if b[i] == '\\' && i + 5 < b.len() + 0 && b[i + 1] == 'u' {
            let hex: String = b[i + 2..i + 6].iter().collect();
            if let Ok(n) = u32::from_str_radix(&hex, 16) {
                if let Some(c) = char::from_u32(n) {
                    out.push(c);
                    i += 6;
                    continue;
                }
            }
        }
        out.push(b[i]);
        i += 1;
    }
    out
}

/// every non-ASCII character -> \uXXXX (surrogate pairs for the astral planes)
fn ascii(s: &str) -> String {
    let mut out = String::new();
    for c in s.chars() {
        if c.is_ascii() {
            out.push(c);
        } else {
            let mut buf = [0u16; 2];
            for u in c.encode_utf16(&mut buf) {
                out.push_str(&format!("\\u{:04x}", u));
            }
        }
    }
    out
}

fn canon_num(n: &serde_json::Number) -> String {
    if let Some(i) = n.as_i64() {
        return i.to_string();
    }
    if let Some(u) = n.as_u64() {
        return u.to_string();
    }
    let f = n.as_f64().unwrap_or(f64::NAN);
    if f.fract() == 0.0 && f.abs() <= 9_007_199_254_740_992.0 {
        return (f as i64).to_string();
    }
    serde_json::to_string(&f).unwrap()
}

/// canonical text of a JSON value: keys sorted, numbers by value, strings JSON-quoted then ASCII
pub fn canon(v: &Value) -> String {
    match v {
        Value::Null => "null".to_string(),
        Value::Bool(b) => b.to_string(),
        Value::Number(n) => canon_num(n),
        Value::String(s) => ascii(&serde_json::to_string(s).unwrap()),
        Value::Array(a) => format!("[{}]", a.iter().map(canon).collect::<Vec<_>>().join(",")),
        Value::Object(m) => {
            let mut keys: Vec<&String> = m.keys().collect();
            keys.sort();
            format!(
                "{{{}}}",
                keys.iter()
                    .map(|k| format!("{}:{}", ascii(&serde_json::to_string(k).unwrap()), canon(&m[*k])))
                    .collect::<Vec<_>>()
                    .join(",")
            )
        }
    }
}

/// the observation record of a filled parameter: strings raw, the rest by type and canonical text
fn observed(v: &Value) -> Value {
    match v {
        Value::String(s) => json!({"t": "str", "s": ascii(s)}),
        Value::Bool(_) => json!({"t": "bool", "s": canon(v)}),
        Value::Number(_) => json!({"t": "num", "s": canon(v)}),
        _ => json!({"t": "json", "s": canon(v)}),
    }
}

/// the boundary values of a leaf class
fn pool(class: &str) -> Vec<Value> {
    let p = |s: &str| serde_json::from_str::<Value>(s).unwrap();
    match class {
        "null" => vec![Value::Null],
        "true" => vec![json!(true)],
        "false" => vec![json!(false)],
        "zero" => vec![json!(0)],
        "small" => vec![json!(42), json!(1), json!(65535)],
        "neg" => vec![json!(-7), json!(-1), json!(-65536)],
        "i31max" => vec![json!(2147483647i64)],
        "i31min" => vec![json!(-2147483648i64)],
        "i32" => vec![json!(2147483648i64), json!(4294967295i64), json!(4294967296i64)],
        "i32n" => vec![json!(-2147483649i64), json!(-4294967296i64)],
        "i33" => vec![json!(3000000000i64), json!(1099511627776i64), json!(123456789012345i64)],
        "i53" => vec![json!(9007199254740992i64), json!(9007199254740991i64)],
        "i53n" => vec![json!(-9007199254740992i64), json!(-9007199254740991i64)],
        "flt" => vec![json!(1.5), json!(0.1), json!(3.141592653589793)],
        "fltneg" => vec![json!(-0.25), json!(-2.5e-3)],
        "fltbig" => vec![p("1e300"), p("1.7976931348623157e308"), p("4294967296.5")],
        "fltsmall" => vec![p("1e-7"), p("5e-324"), p("2.2250738585072014e-308")],
        "sempty" => vec![json!("")],
        "sascii" => vec![json!("hello"), json!("a b  c"), json!("0"), json!("true"), json!("null")],
        "suni" => vec![json!("h\u{e9}llo \u{2713}"), json!("\u{65e5}\u{672c}\u{8a9e}"), json!("\u{1F600} ok")],
        "squote" => vec![json!("a\"b"), json!("back\\slash"), json!("line\nbreak\ttab"), json!("it's")],
        _ => panic!("unknown leaf class {class}"),
    }
}

/// instantiate a shape; `salt` walks the pools so that every member gets used
fn instantiate(shape: &Value, salt: &mut usize) -> Value {
    match shape["t"].as_str().unwrap() {
        "leaf" => {
            let p = pool(shape["c"].as_str().unwrap());
            *salt += 1;
            p[*salt % p.len()].clone()
        }
        "arr" => Value::Array(shape["items"].as_array().map(|a| a.iter().map(|s| instantiate(s, salt)).collect()).unwrap_or_default()),
        "obj" => {
            let mut m = Map::new();
            let keys = ["k", "m\u{e9}", "2"];
            if let Some(a) = shape["items"].as_array() {
                for (i, s) in a.iter().enumerate() {
                    m.insert(keys[i % keys.len()].to_string(), instantiate(s, salt));
                }
            }
            Value::Object(m)
        }
        t => panic!("unknown shape {t}"),
    }
}

struct Eng {
    engine: acts::Engine,
    created: Arc<Mutex<Vec<(String, String, Value)>>>, // (pid, key, inputs)
    n: usize,
}

async fn engine(workdir: &str) -> Eng {
    verif::reset();
    std::fs::create_dir_all(workdir).unwrap();
    let cfgfile = format!("{workdir}/script-{}.toml", std::process::id());
    std::fs::write(&cfgfile, "tick_interval_secs = 3600\nkeep_processes = true\ncache_cap = 4096\n").unwrap();
    let engine = EngineBuilder::new().set_config_source(std::path::Path::new(&cfgfile)).build().await.expect("engine").start();
    let _ = std::fs::remove_file(&cfgfile);
    let start = std::time::Instant::now();
    while verif::ticks() < 1 && start.elapsed() < std::time::Duration::from_secs(5) {
        tokio::task::yield_now().await;
    }
    crate::world::settle().await;
    let created: Arc<Mutex<Vec<(String, String, Value)>>> = Arc::new(Mutex::new(Vec::new()));
    let chan = engine.channel_with_options(&ChannelOptions {
        id: "scriptchan".to_string(),
        r#type: "act".to_string(),
        state: "created".to_string(),
        ..Default::default()
    });
    let c = created.clone();
    chan.on_message(move |e| {
        c.lock().unwrap().push((e.pid.clone(), e.key.clone(), Value::from(e.inputs.clone())));
    });
    Eng { engine, created, n: 0 }
}

impl Eng {
    /// deploy and run `model` with `inputs` until quiescent; returns (pid, created act messages)
    async fn run(&mut self, model: Value, inputs: &Map<String, Value>) -> (String, Vec<(String, Value)>) {
        self.n += 1;
        let mid = format!("sm{}", self.n);
        let pid = format!("sp{}", self.n);
        let mut model = model;
        model["id"] = json!(mid);
        model["name"] = json!(mid);
        let exec = self.engine.executor();
        let wf = Workflow::from_json(&model.to_string()).unwrap_or_else(|e| panic!("model {model}: {e}"));
        exec.model().deploy(&wf).unwrap();
        let mut vars = Vars::new();
        for (k, v) in inputs {
            vars.insert(k.clone(), v.clone());
        }
        vars.insert("pid".to_string(), json!(pid));
        self.created.lock().unwrap().clear();
        exec.proc().start(&mid, &vars).unwrap();
        crate::world::settle().await;
        let got = self.created.lock().unwrap().drain(..).filter(|(p, _, _)| *p == pid).map(|(_, k, i)| (k, i)).collect();
        (pid, got)
    }

    fn task_data(&self, pid: &str, nid: &str) -> Value {
        let dump = verif::dump_proc(&self.engine, pid).unwrap_or(Value::Null);
        dump["tasks"].as_array().and_then(|ts| ts.iter().find(|t| t["nid"] == json!(nid)).map(|t| t["data"].clone())).unwrap_or(Value::Null)
    }
}

fn js_lit(v: &Value) -> String {
    // a JSON text is a JS literal, except that an object at statement level needs parentheses
    format!("({})", serde_json::to_string(v).unwrap())
}

async fn template_batch(eng: &mut Eng, env: &Map<String, Value>, cases: &[(usize, Value)], lines: &mut Vec<Value>) {
    let mut params = Map::new();
    for (i, c) in cases {
        let text = deascii(c["text"].as_str().unwrap());
        // every third case sits inside an array, every fifth inside an object: fill_params recurses
        let v = if i % 3 == 1 {
            json!(["lead", text])
        } else if i % 5 == 2 {
            json!({"in": text})
        } else {
            json!(text)
        };
        params.insert(format!("c{i}"), v);
    }
    let model = json!({"steps": [{"id": "s1", "acts": [{"id": "a1", "uses": "acts.core.irq", "key": "k1", "params": Value::Object(params)}]}]});
    let (_pid, got) = eng.run(model, env).await;
    let filled = got.iter().find(|(k, _)| k == "k1").map(|(_, i)| i["params"].clone()).unwrap_or(Value::Null);
    for (i, c) in cases {
        let v = &filled[format!("c{i}")];
        let v = if i % 3 == 1 {
            &v[1]
        } else if i % 5 == 2 {
            &v["in"]
        } else {
            v
        };
        let nest = if i % 3 == 1 { "array" } else if i % 5 == 2 { "object" } else { "flat" };
        lines.push(json!({"ev": "tpl", "case": i, "segs": c["segs"], "text": c["text"], "nest": nest,
            "obs": if v.is_null() && filled.is_null() { json!({"t": "missing", "s": ""}) } else { observed(v) }}));
    }
}

async fn value_batch(eng: &mut Eng, route: &str, cases: &[(usize, Value)], salt: &mut usize, lines: &mut Vec<Value>) {
    let vals: Vec<Value> = cases.iter().map(|(_, c)| instantiate(&c["shape"], salt)).collect();
    let mut inputs = Map::new();
    for (j, v) in vals.iter().enumerate() {
        inputs.insert(format!("x{j}"), v.clone());
    }
    let n = vals.len();
    let wait = json!({"id": "w", "uses": "acts.core.irq", "key": "wait"});
    let mut outs: Vec<Option<Value>> = vec![None; n];
    match route {
        "global_return" | "get_set" | "stringify" | "literal" => {
            let code = match route {
                "global_return" => format!("return {{ {} }};", (0..n).map(|j| format!("o{j}: x{j}")).collect::<Vec<_>>().join(", ")),
                "get_set" => format!("{} return {{}};", (0..n).map(|j| format!("$set(\"o{j}\", $get(\"x{j}\"));")).collect::<Vec<_>>().join(" ")),
                "stringify" => format!("return {{ {} }};", (0..n).map(|j| format!("o{j}: JSON.stringify(x{j})")).collect::<Vec<_>>().join(", ")),
                _ => format!("return {{ {} }};", (0..n).map(|j| format!("o{j}: {}", js_lit(&vals[j]))).collect::<Vec<_>>().join(", ")),
            };
            let model = json!({"steps": [{"id": "s1", "acts": [{"id": "code", "uses": "acts.transform.code", "params": code}, wait]}]});
            let (pid, _) = eng.run(model, &inputs).await;
            let data = eng.task_data(&pid, "code");
            for j in 0..n {
                if let Some(v) = data.get(format!("o{j}")) {
                    outs[j] = Some(if route == "stringify" {
                        match v.as_str().map(serde_json::from_str::<Value>) {
                            Some(Ok(v)) => v,
                            _ => json!({"unparsable": v}),
                        }
                    } else {
                        v.clone()
                    });
                }
            }
        }
        "cond" => {
            // one branch per case, entered iff the script sees the literal's value in the global
            let branches: Vec<Value> = (0..n)
                .map(|j| {
                    json!({"id": format!("b{j}"), "if": format!("JSON.stringify(x{j}) === JSON.stringify({})", js_lit(&vals[j])),
                           "steps": [{"id": format!("bs{j}"), "acts": [{"id": format!("ba{j}"), "uses": "acts.core.irq", "key": format!("in{j}")}]}]})
                })
                .collect();
            let mut branches = branches;
            branches.push(json!({"id": "belse", "else": true, "steps": [{"id": "bse", "acts": [wait]}]}));
            let model = json!({"steps": [{"id": "s1", "branches": branches}]});
            let (_pid, got) = eng.run(model, &inputs).await;
            for j in 0..n {
                // entered: the value was seen intact; otherwise what was seen is unknown
                outs[j] = Some(if got.iter().any(|(k, _)| *k == format!("in{j}")) { vals[j].clone() } else { json!({"condition": "false"}) });
            }
        }
        "typed_input" | "typed_param" => {
            let mut m = Map::new();
            for j in 0..n {
                m.insert(format!("o{j}"), json!(format!("{{{{ x{j} }}}}")));
            }
            let act = if route == "typed_input" {
                json!({"id": "a1", "uses": "acts.core.irq", "key": "k1", "inputs": Value::Object(m)})
            } else {
                json!({"id": "a1", "uses": "acts.core.irq", "key": "k1", "params": Value::Object(m)})
            };
            let model = json!({"steps": [{"id": "s1", "acts": [act]}]});
            let (_pid, got) = eng.run(model, &inputs).await;
            if let Some((_, i)) = got.iter().find(|(k, _)| k == "k1") {
                let src = if route == "typed_input" { i.clone() } else { i["params"].clone() };
                for j in 0..n {
                    if let Some(v) = src.get(format!("o{j}")) {
                        outs[j] = Some(v.clone());
                    }
                }
            }
        }
        r => panic!("unknown route {r}"),
    }
    for (j, (i, c)) in cases.iter().enumerate() {
        lines.push(json!({"ev": "val", "case": i, "route": route, "shape": c["shape"], "in": canon(&vals[j]),
            "out": match &outs[j] { Some(v) => canon(v), None => "<missing>".to_string() }}));
    }
}

pub fn run(args: &Args) -> i32 {
    let mut out = Out::new(&args.str("out", "script.ndjson"));
    let cases = crate::read_ndjson(&args.str("cases", "cases.ndjson"));
    let stride = args.num("stride", 1) as usize;
    let offset = args.num("offset", 0) as usize;
    let shard = args.num("shard", 0) as usize;
    let shards = args.num("shards", 1) as usize;
    let batch = args.num("batch", 40) as usize;
    let workdir = args.str("workdir", "/verif/.work/run");
    let rt = crate::runtime("ct");
    let env: Map<String, Value> = cases
        .iter()
        .find(|c| c["kind"] == "env")
        .map(|c| serde_json::from_str::<Value>(c["text"].as_str().unwrap()).expect("env text"))
        .and_then(|v| v.as_object().cloned())
        .expect("no env case");
    // short cases are always taken, long ones every stride-th
    let take = |i: usize, c: &Value| -> bool {
        let short = c["kind"] == "tpl" && c["segs"].as_array().map(|a| a.len()).unwrap_or(0) <= 2;
        (short || (i + offset) % stride == 0) && i % shards == shard
    };
    let kinds = args.str("kinds", "tpl,val");
    let tpl: Vec<(usize, Value)> =
        cases.iter().cloned().enumerate().filter(|(i, c)| kinds.contains("tpl") && c["kind"] == "tpl" && take(*i, c)).collect();
    let val: Vec<(usize, Value)> =
        cases.iter().cloned().enumerate().filter(|(i, c)| kinds.contains("val") && c["kind"] == "val" && take(*i, c)).collect();
    let mut lines = vec![json!({"ev": "scriptmodel", "cases": cases.len(), "stride": stride})];
    rt.block_on(async {
        let mut eng = engine(&workdir).await;
        for chunk in tpl.chunks(batch) {
            template_batch(&mut eng, &env, chunk, &mut lines).await;
        }
        let mut salt = offset;
        let routes: Vec<String> = {
            let mut r: Vec<String> = val.iter().map(|(_, c)| c["route"].as_str().unwrap().to_string()).collect();
            r.sort();
            r.dedup();
            r
        };
        for route in routes {
            let of: Vec<(usize, Value)> = val.iter().filter(|(_, c)| c["route"] == json!(route)).cloned().collect();
            for chunk in of.chunks(batch) {
                value_batch(&mut eng, &route, chunk, &mut salt, &mut lines).await;
            }
        }
    });
    out.write(&lines);
    out.flush();
    eprintln!("script: {} template cases, {} value cases, {} lines", tpl.len(), val.len(), out.lines);
    0
}
