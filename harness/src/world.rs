//! One engine under the gate: every spec action is one controlled engine step, after which the
//! projected state is recorded.

use acts::{Engine, EngineBuilder, Executor, Vars, Workflow, verif};
use serde_json::{Value, json};
use std::collections::{BTreeMap, HashMap};
use std::sync::Arc;

pub type Key = (String, u32);

/// the virtual clock starts here (milliseconds); traces carry seconds since then
pub const CLOCK_BASE: i64 = 1_000_000;

pub fn key_json(k: &Key) -> Value {
    json!([k.0, k.1])
}

pub fn nokey() -> Value {
    json!(["nil", 0])
}

/// canonical JSON text of a value (object keys sorted): compared as opaque text by TLC
pub fn canon(v: &Value) -> String {
    fn sort(v: &Value) -> Value {
        match v {
            Value::Object(m) => {
                // "$params" is a cache of the evaluated act params, refilled on demand: not state
                let mut keys: Vec<&String> = m.keys().filter(|k| k.as_str() != "$params").collect();
                keys.sort();
                let mut out = serde_json::Map::new();
                for k in keys {
                    out.insert(k.clone(), sort(&m[k]));
                }
                Value::Object(out)
            }
            Value::Array(a) => Value::Array(a.iter().map(sort).collect()),
            _ => v.clone(),
        }
    }
    sort(v).to_string()
}

#[derive(Clone, Debug)]
pub struct Cfg {
    pub keep: bool,
    pub cap: i64,
    pub max_retry: i32,
    pub sqlite: Option<String>,
    /// deliver parked dispatches in generation order right after every step
    pub auto_deliver: bool,
}

impl Default for Cfg {
    fn default() -> Self {
        Cfg {
            keep: true,
            cap: 1024,
            max_retry: 3,
            sqlite: None,
            auto_deliver: true,
        }
    }
}

pub struct World {
    pub engine: Engine,
    pub exec: Arc<Executor>,
    pub cfg: Cfg,
    /// (pid, tid) -> key
    pub keys: HashMap<(String, String), Key>,
    /// (pid, key) -> tid
    pub tids: HashMap<(String, Key), String>,
    counters: HashMap<(String, String), u32>,
    pub pids: Vec<String>,
    pub lines: Vec<Value>,
    pub steps: usize,
    /// generated-but-undelivered dispatch jobs are flushed in order unless false
    pub model: Value,
    pub recv: Vec<Value>,
    /// the engine stopped making progress (work in flight that never finishes)
    pub stuck: bool,
    /// currently re-executing an already recorded prefix
    pub prefix: bool,
    /// the tasks of the (single) process when it was last seen in the cache
    pub last_tasks: Vec<(Key, String, String, String)>,
    /// ... the same for every process (multi-process scenarios)
    pub last_by_pid: HashMap<String, Vec<(Key, String, String, String)>>,
}

/// wait until nothing is in flight; false if the engine does not get there within a few seconds
/// (a dead scheduler loop, say) - the caller records that instead of hanging
pub async fn settle() -> bool {
    let mut spins = 0u32;
    let start = std::time::Instant::now();
    loop {
        if verif::inflight() <= 0 {
            return true;
        }
        tokio::task::yield_now().await;
        spins += 1;
        if spins % 64 == 0 {
            tokio::time::sleep(std::time::Duration::from_micros(50)).await;
            if start.elapsed() > std::time::Duration::from_secs(8) {
                return false;
            }
        }
    }
}

fn write_cfg(cfg: &Cfg, dir: &str, tag: &str) -> String {
    let mut s = String::new();
    s.push_str(&format!("cache_cap = {}\n", cfg.cap));
    s.push_str("tick_interval_secs = 3600\n");
    s.push_str(&format!("max_message_retry_times = {}\n", cfg.max_retry));
    s.push_str(&format!("keep_processes = {}\n", cfg.keep));
    if let Some(url) = &cfg.sqlite {
        s.push_str(&format!("[sqlite]\ndatabase_url = \"{url}\"\n"));
    }
    std::fs::create_dir_all(dir).unwrap();
    let path = format!("{dir}/engine-{tag}-{}.toml", std::process::id());
    std::fs::write(&path, s).unwrap();
    path
}

impl World {
    /// build an engine, wait for its start-up tick, then arm the hooks
    pub async fn new(cfg: &Cfg, workdir: &str, tag: &str, model: &Value) -> World {
        Self::new_with(cfg, workdir, tag, model, true).await
    }

    /// `gated = false`: nothing is parked; the engine runs on its own threads (natural runs)
    pub async fn new_with(cfg: &Cfg, workdir: &str, tag: &str, model: &Value, gated: bool) -> World {
        verif::reset();
        let path = write_cfg(cfg, workdir, tag);
        let mut builder = EngineBuilder::new().set_config_source(std::path::Path::new(&path));
        if cfg.sqlite.is_some() {
            builder = builder.add_plugin(&acts_store_sqlite::SqliteStore);
        }
        let engine = builder.build().await.expect("engine build").start();
        let _ = std::fs::remove_file(&path);
        // the interval task fires its first tick at once; let it pass unrecorded
        let start = std::time::Instant::now();
        while verif::ticks() < 1 && start.elapsed() < std::time::Duration::from_secs(5) {
            tokio::task::yield_now().await;
        }
        settle().await;
        verif::clock_set(CLOCK_BASE);
        verif::log_enable(true);
        verif::gate_arm(gated);
        verif::spawn_arm(gated);
        verif::dispatch_arm(gated);
        let exec = engine.executor();

        let chan = engine.channel();
        chan.on_message(|e| {
            verif::log_push(json!({"ev":"recv","what":"message","id":e.id,"pid":e.pid,"tid":e.tid,
                "state":e.state.as_ref(),"type":e.r#type,"retry":e.retry_times}));
        });
        chan.on_start(|e| {
            verif::log_push(json!({"ev":"recv","what":"start","id":e.id,"pid":e.pid,"tid":e.tid,
                "state":e.state.as_ref(),"type":e.r#type}));
        });
        chan.on_complete(|e| {
            verif::log_push(json!({"ev":"recv","what":"complete","id":e.id,"pid":e.pid,"tid":e.tid,
                "state":e.state.as_ref(),"type":e.r#type,"outputs":Value::from(e.outputs.clone())}));
        });
        chan.on_error(|e| {
            verif::log_push(json!({"ev":"recv","what":"error","id":e.id,"pid":e.pid,"tid":e.tid,
                "state":e.state.as_ref(),"type":e.r#type,"inputs":Value::from(e.inputs.clone())}));
        });

        World {
            engine,
            exec,
            cfg: cfg.clone(),
            keys: HashMap::new(),
            tids: HashMap::new(),
            counters: HashMap::new(),
            pids: Vec::new(),
            lines: Vec::new(),
            steps: 0,
            model: model.clone(),
            recv: Vec::new(),
            stuck: false,
            prefix: false,
            last_tasks: Vec::new(),
            last_by_pid: HashMap::new(),
        }
    }

    pub fn deploy(&mut self, model_text: &str) -> Result<(), String> {
        let wf = Workflow::from_json(model_text).map_err(|e| e.to_string())?;
        self.exec.model().deploy(&wf).map_err(|e| e.to_string())?;
        Ok(())
    }

    fn key_of(&self, pid: &str, tid: &str) -> Value {
        match self.keys.get(&(pid.to_string(), tid.to_string())) {
            Some(k) => key_json(k),
            None => nokey(),
        }
    }

    pub fn tid_of(&self, pid: &str, key: &Key) -> Option<String> {
        self.tids.get(&(pid.to_string(), key.clone())).cloned()
    }

    /// drain the hook log: assign keys to new tasks, translate tids
    fn absorb(&mut self) -> (Vec<Value>, Vec<Value>, Vec<Value>, Vec<Value>) {
        let mut ws = Vec::new();
        let mut gens = Vec::new();
        let mut mks = Vec::new();
        let mut others = Vec::new();
        for ev in verif::log_drain() {
            let kind = ev["ev"].as_str().unwrap_or("").to_string();
            let pid = ev["pid"].as_str().unwrap_or("").to_string();
            let tid = ev["tid"].as_str().unwrap_or("").to_string();
            match kind.as_str() {
                "mk" => {
                    let nid = ev["nid"].as_str().unwrap().to_string();
                    let id = (pid.clone(), tid.clone());
                    if !self.keys.contains_key(&id) {
                        let c = self.counters.entry((pid.clone(), nid.clone())).or_insert(0);
                        *c += 1;
                        let key = (nid.clone(), *c);
                        self.keys.insert(id.clone(), key.clone());
                        self.tids.insert((pid.clone(), key), tid.clone());
                    }
                    let prev = ev["prev"].as_str().unwrap_or("nil");
                    mks.push(json!({"pid": pid, "t": self.key_of(&pid, &tid),
                        "prev": if prev == "nil" { nokey() } else { self.key_of(&pid, prev) },
                        "kind": ev["kind"], "uses": ev["uses"], "how": ev["how"], "seq": ev["seq"]}));
                }
                "w" => {
                    ws.push(json!({"pid": pid, "t": self.key_of(&pid, &tid), "kind": ev["kind"],
                        "old": ev["old"], "new": ev["new"], "err": ev["err"], "via": ev["via"],
                        "seq": ev["seq"]}));
                }
                "pw" => {
                    ws.push(json!({"pid": pid, "t": nokey(), "kind": "proc",
                        "old": ev["old"], "new": ev["new"], "err": "nil", "via": ev["via"],
                        "seq": ev["seq"]}));
                }
                "gen" => {
                    gens.push(json!({"what": ev["what"], "pid": pid, "t": self.key_of(&pid, &tid),
                        "nid": ev["nid"], "type": ev["type"], "state": ev["state"],
                        "key": ev["key"], "uses": ev["uses"], "tag": ev["tag"], "id": ev["id"],
                        "tid": tid, "retry": ev["retry"], "seq": ev["seq"],
                        "inputs": ev["inputs"], "outputs": ev["outputs"]}));
                }
                "recv" => {
                    let mut e = ev.clone();
                    e["t"] = self.key_of(&pid, &tid);
                    self.recv.push(e.clone());
                    others.push(e);
                }
                _ => others.push(ev),
            }
        }
        (ws, gens, mks, others)
    }

    /// the projected state of every known process
    pub fn post(&self) -> Value {
        let gate = verif::gate_list();
        let mut procs = BTreeMap::new();
        for pid in &self.pids {
            let p = match verif::dump_proc(&self.engine, pid) {
                Some(p) => p,
                None => {
                    // not in the cache; what it has queued is still queued
                    let q: Vec<Value> = gate.iter().filter(|(p, _)| p == pid).map(|(p, t)| self.key_of(p, t)).collect();
                    procs.insert(pid.clone(), json!({"cached": false, "q": q}));
                    continue;
                }
            };
            let mut tasks = Vec::new();
            for (i, t) in p["tasks"].as_array().unwrap().iter().enumerate() {
                let tid = t["tid"].as_str().unwrap();
                let prev = t["prev"].as_str().unwrap_or("nil");
                let data = &t["data"];
                let flag = |name: &str| data.get(name).and_then(|v| v.as_bool()).unwrap_or(false);
                let st = t["start_time"].as_i64().unwrap_or(0);
                let mut tdone: Vec<String> = Vec::new();
                if let Value::Object(map) = data {
                    for (k, v) in map {
                        if let Some(on) = k.strip_prefix("$is_timeout_") {
                            if v.as_bool() == Some(true) {
                                tdone.push(on.to_string());
                            }
                        }
                    }
                }
                tdone.sort();
                tasks.push(json!({
                    "k": self.key_of(pid, tid),
                    "start": if st == 0 { -1 } else { (st - CLOCK_BASE) / 1000 },
                    "tdone": tdone,
                    "st": t["state"],
                    "prev": if prev == "nil" { nokey() } else { self.key_of(pid, prev) },
                    "seq": i + 1,
                    "err": match &t["err"] { Value::Object(e) => e["ecode"].clone(), _ => json!("nil") },
                    "data": canon(data),
                    "hasStart": st != 0,
                    "hasEnd": t["end_time"].as_i64().unwrap_or(0) != 0,
                    "emitOff": flag("$emit_disabled"),
                    "catchDone": flag("$is_catch_processed"),
                    "hookAct": flag("$is_event_processed"),
                    "noauto": data.get("$auto_complete").and_then(|v| v.as_bool()) == Some(false),
                }));
            }
            let q: Vec<Value> = gate
                .iter()
                .filter(|(p, _)| p == pid)
                .map(|(p, t)| self.key_of(p, t))
                .collect();
            // the calling act of a child process and the inputs it was started with: root data
            let root = p["tasks"].as_array().unwrap().iter().find(|t| t["tid"] == "$");
            let rdata = root.map(|t| t["data"].clone()).unwrap_or(Value::Null);
            let link = match (rdata.get("$parent_pid").and_then(|v| v.as_str()), rdata.get("$parent_tid").and_then(|v| v.as_str())) {
                (Some(pp), Some(pt)) => json!({"pid": pp, "t": self.key_of(pp, pt)}),
                _ => json!({"pid": "nil", "t": nokey()}),
            };
            let num = |k: &str| rdata.get(k).and_then(|v| v.as_i64()).unwrap_or(0);
            procs.insert(
                pid.clone(),
                json!({
                    "cached": true,
                    "mid": p["mid"],
                    "link": link,
                    "inp": {"v": num("v"), "w": num("w")},
                    "ps": p["state"],
                    "perr": match &p["err"] { Value::Object(e) => e["ecode"].clone(), _ => json!("nil") },
                    "env": canon(&p["env"]),
                    "tasks": tasks,
                    "q": q,
                }),
            );
        }
        // the store's image of every process (C11, C17): proc row and task rows
        let store = verif::store(&self.engine);
        let mut rows = BTreeMap::new();
        for pid in &self.pids {
            let prow = match store.procs().find(pid) {
                Ok(p) => json!({"exists": true, "ps": p.state,
                    "perr": match &p.err { Some(e) => serde_json::from_str::<Value>(e).ok().and_then(|v| v.get("ecode").cloned()).unwrap_or(json!("?")), None => json!("nil") },
                    "env": canon(&serde_json::from_str::<Value>(&p.env).unwrap_or(Value::Null))}),
                Err(_) => json!({"exists": false, "ps": "nil", "perr": "nil", "env": "nil"}),
            };
            let q = acts::query::Query::new().push(acts::query::Cond::and().push(acts::query::Expr::eq("pid", pid.clone())));
            let mut trows = Vec::new();
            if let Ok(page) = store.tasks().query(&q) {
                for t in page.rows {
                    trows.push(json!({
                        "k": self.key_of(pid, &t.tid),
                        "st": t.state,
                        "prev": match &t.prev { Some(p) => self.key_of(pid, p), None => nokey() },
                        "err": match &t.err { Some(e) => serde_json::from_str::<Value>(e).ok().and_then(|v| v.get("ecode").cloned()).unwrap_or(json!("?")), None => json!("nil") },
                        "data": canon(&serde_json::from_str::<Value>(&t.data).unwrap_or(Value::Null)),
                        "hasStart": t.start_time != 0,
                        "hasEnd": t.end_time != 0,
                    }));
                }
            }
            rows.insert(pid.clone(), json!({"proc": prow, "tasks": trows}));
        }
        let jobs: Vec<Value> = verif::jobs_list()
            .iter()
            .filter(|(k, _, _)| !k.starts_with("dispatch:"))
            .map(|(k, a, b)| json!({"kind": k, "pid": a, "tid": b, "t": if k == "return" { self.key_of(a, b) } else { nokey() }}))
            .collect();
        json!({"procs": procs, "jobs": jobs, "now": (verif::clock_now() - CLOCK_BASE) / 1000, "rows": rows})
    }

    /// deliver every parked dispatch in generation order
    pub fn flush_dispatch(&mut self) {
        loop {
            let jobs = verif::jobs_list();
            match jobs.iter().position(|(k, _, _)| k.starts_with("dispatch:")) {
                Some(i) => {
                    verif::job_run(i);
                }
                None => break,
            }
        }
    }

    /// close a step: settle, deliver, record
    pub async fn record(&mut self, mut step: Value) {
        let mut settled = settle().await;
        if self.cfg.auto_deliver {
            self.flush_dispatch();
            settled = settle().await && settled;
        }
        if !settled {
            self.stuck = true;
            step["stuck"] = json!(verif::inflight());
        }
        let (ws, gens, mks, others) = self.absorb();
        self.steps += 1;
        step["ev"] = json!("step");
        step["n"] = json!(self.steps);
        // a step that only re-executes an already recorded prefix (explore): its state has been
        // judged before, OBSERVE loads it without evaluating the formulas again
        step["pre"] = json!(self.prefix);
        step["ws"] = json!(ws);
        step["gens"] = json!(gens);
        step["mks"] = json!(mks);
        step["others"] = json!(others);
        step["post"] = self.post();
        self.lines.push(step);
        if let Some(pid) = self.pids.first().cloned() {
            if verif::dump_proc(&self.engine, &pid).is_some() {
                self.last_tasks = self.live_tasks(&pid);
            }
        }
        for pid in self.pids.clone() {
            if verif::dump_proc(&self.engine, &pid).is_some() {
                let ts = self.live_tasks(&pid);
                self.last_by_pid.insert(pid, ts);
            }
        }
    }

    pub fn model_line(&mut self, name: &str, tree: Value, inputs: &Value, extra: Value) {
        self.lines.push(json!({"ev": "model", "name": name, "model": self.model, "tree": tree,
            "inputs": inputs, "keep": self.cfg.keep, "cfg": {"keep": self.cfg.keep, "cap": self.cfg.cap}, "x": extra}));
    }

    // ------------------------------------------------------------------ spec actions

    pub async fn start_call(&mut self, mid: &str, pid: &str, inputs: &Value) -> bool {
        let mut vars = Vars::new();
        if let Value::Object(map) = inputs {
            for (k, v) in map {
                vars.insert(k.clone(), v.clone());
            }
        }
        vars.insert("pid".to_string(), json!(pid));
        let res = self.exec.proc().start(mid, &vars);
        let ok = res.is_ok();
        if ok && !self.pids.contains(&pid.to_string()) {
            self.pids.push(pid.to_string());
        }
        self.record(json!({"a": "StartCall", "pid": pid, "mid": mid, "inputs": inputs,
            "res": if ok { "ok".to_string() } else { format!("err:{}", res.err().unwrap()) }}))
            .await;
        ok
    }

    /// a start through the client API of the model at offset `mo` before the main model of the bundle
    pub async fn start_model(&mut self, mid: &str, mo: usize, pid: &str, inputs: &Value) -> bool {
        let mut vars = Vars::new();
        if let Value::Object(map) = inputs {
            for (k, v) in map {
                vars.insert(k.clone(), v.clone());
            }
        }
        vars.insert("pid".to_string(), json!(pid));
        let res = self.exec.proc().start(mid, &vars);
        let ok = res.is_ok();
        if !self.pids.contains(&pid.to_string()) {
            self.pids.push(pid.to_string());
        }
        self.record(json!({"a": "StartCall", "pid": pid, "mid": mid, "mo": mo, "inputs": inputs,
            "res": if ok { "ok".to_string() } else { format!("err:{}", res.err().unwrap()) }}))
            .await;
        ok
    }

    /// run the parked return of a child process to the calling act (ppid, ptid)
    pub async fn ret(&mut self, ppid: &str, ptid: &str) -> bool {
        let jobs = verif::jobs_list();
        let pos = jobs.iter().position(|(k, a, b)| k == "return" && a == ppid && b == ptid);
        let ran = match pos {
            Some(i) => verif::job_run(i),
            None => false,
        };
        let t = self.key_of(ppid, ptid);
        self.record(json!({"a": "Return", "pid": ppid, "t": t, "kind": "nil", "res": if ran { "?" } else { "err:nojob" },
            "opts": {"ecode": "nil", "to": "nil"}}))
            .await;
        // what the action was and how it ended: the hook's record
        let mut ok = false;
        if let Some(last) = self.lines.last_mut() {
            let found = last["others"].as_array().and_then(|o| o.iter().find(|e| e["ev"] == "ret").cloned());
            if let Some(e) = found {
                let kind = match e["action"].as_str().unwrap_or("") {
                    "next" => "complete",
                    k => k,
                }
                .to_string();
                last["kind"] = json!(kind);
                last["res"] = e["res"].clone();
                ok = e["res"] == "ok";
            }
        }
        ok
    }

    /// tasks of any process as last seen
    pub fn tasks_of(&self, pid: &str) -> Vec<(Key, String, String, String)> {
        if verif::dump_proc(&self.engine, pid).is_none() {
            return self.last_by_pid.get(pid).cloned().unwrap_or_default();
        }
        self.live_tasks(pid)
    }

    pub async fn launch(&mut self, pid: &str) -> bool {
        // a process id taken again (its former process has left): the task keys start afresh
        self.keys.retain(|k, _| k.0 != pid);
        self.tids.retain(|k, _| k.0 != pid);
        self.counters.retain(|k, _| k.0 != pid);
        let jobs = verif::jobs_list();
        let pos = jobs.iter().position(|(k, a, _)| k == "launch" && a == pid);
        let ok = match pos {
            Some(i) => verif::job_run(i),
            None => false,
        };
        self.record(json!({"a": "Launch", "pid": pid, "res": if ok { "ok" } else { "err:nojob" }}))
            .await;
        ok
    }

    pub async fn exec_task(&mut self, pid: &str, key: &Key) -> bool {
        let ok = match self.tid_of(pid, key) {
            Some(tid) => verif::gate_release(pid, &tid),
            None => false,
        };
        self.record(json!({"a": "Exec", "pid": pid, "t": key_json(key),
            "res": if ok { "ok" } else { "err:notparked" }}))
            .await;
        ok
    }

    /// a client action; `kind` is the executor method name
    pub async fn act(&mut self, pid: &str, key: &Key, kind: &str, opts: &Value) -> bool {
        let tid = self
            .tid_of(pid, key)
            .unwrap_or_else(|| format!("unknown-{}-{}", key.0, key.1));
        let mut vars = Vars::new();
        if let Value::Object(map) = opts {
            for (k, v) in map {
                if v.as_str() == Some("nil") {
                    continue;
                }
                vars.insert(k.clone(), v.clone());
            }
        }
        let a = self.exec.act();
        let res = match kind {
            "complete" => a.complete(pid, &tid, &vars),
            "submit" => a.submit(pid, &tid, &vars),
            "back" => a.back(pid, &tid, &vars),
            "cancel" => a.cancel(pid, &tid, &vars),
            "abort" => a.abort(pid, &tid, &vars),
            "skip" => a.skip(pid, &tid, &vars),
            "error" => a.error(pid, &tid, &vars),
            "push" => a.push(pid, &tid, &vars),
            "remove" => a.remove(pid, &tid, &vars),
            "set_process_vars" => a.set_process_vars(pid, &tid, &vars),
            _ => panic!("unknown action kind {kind}"),
        };
        let ok = res.is_ok();
        self.record(json!({"a": "Act", "pid": pid, "t": key_json(key), "kind": kind, "opts": opts,
            "res": if ok { "ok".to_string() } else { format!("err:{}", res.err().unwrap()) }}))
            .await;
        ok
    }

    /// drop the process from the cache (the next access reloads it from the store)
    pub async fn evict(&mut self, pid: &str) {
        verif::evict(&self.engine, pid);
        self.record(json!({"a": "Evict", "pid": pid, "res": "ok"})).await;
    }

    /// the process has left cache and store (finished without keep_processes)
    pub fn gone(&self, pid: &str) -> bool {
        !self.cfg.keep
            && !self.last_tasks.is_empty()
            && verif::dump_proc(&self.engine, pid).is_none()
            && verif::store(&self.engine).procs().find(pid).is_err()
    }

    /// one tick of the engine's interval task, now
    pub async fn tick(&mut self) {
        verif::tick(&self.engine);
        self.record(json!({"a": "Tick", "pid": "nil", "res": "ok"})).await;
    }

    /// the virtual clock moves on by `d` seconds
    pub async fn advance(&mut self, d: i64) {
        verif::clock_advance(d * 1000);
        self.record(json!({"a": "Advance", "pid": "nil", "d": d, "res": "ok"})).await;
    }

    /// parked tasks of a process, as keys
    pub fn parked(&self, pid: &str) -> Vec<Key> {
        verif::gate_list()
            .iter()
            .filter(|(p, _)| p == pid)
            .filter_map(|(p, t)| self.keys.get(&(p.clone(), t.clone())).cloned())
            .collect()
    }

    pub fn launch_pending(&self, pid: &str) -> bool {
        verif::jobs_list()
            .iter()
            .any(|(k, a, _)| k == "launch" && a == pid)
    }

    /// live tasks: (key, kind, state, uses)
    pub fn tasks(&self, pid: &str) -> Vec<(Key, String, String, String)> {
        // an evicted process is not in the cache: what it was when it left is what it is
        if verif::dump_proc(&self.engine, pid).is_none() {
            return self.last_tasks.clone();
        }
        self.live_tasks(pid)
    }

    fn live_tasks(&self, pid: &str) -> Vec<(Key, String, String, String)> {
        let mut out = Vec::new();
        if let Some(p) = verif::dump_proc(&self.engine, pid) {
            for t in p["tasks"].as_array().unwrap() {
                let tid = t["tid"].as_str().unwrap();
                if let Some(k) = self.keys.get(&(pid.to_string(), tid.to_string())) {
                    out.push((
                        k.clone(),
                        t["kind"].as_str().unwrap().to_string(),
                        t["state"].as_str().unwrap().to_string(),
                        t["uses"].as_str().unwrap().to_string(),
                    ));
                }
            }
        }
        out
    }
}
