//! C10: the store contract. Random operation sequences against each of the six collections of
//! the engine's store (in-memory or SQLite), recorded with an abstract projection
//! (id, s1, s2, n1, n2) of every record; spec/TraceStore.tla keeps the abstract database and
//! recomputes the answer of every find and query (spec/StoreQuery.tla).  Field-for-field equality
//! of whole records (20-odd concrete fields) is decided here and logged as `equal`.

use crate::{Args, Out};
use acts::data;
use acts::query::{Cond, Expr, Query};
use acts::{ActPackageCatalog, ActRunAs, DbCollection, EngineBuilder, MessageState, verif};
use rand::rngs::StdRng;
use rand::seq::SliceRandom;
use rand::{Rng, SeedableRng};
use serde_json::{Value, json};
use std::sync::Arc;

#[derive(Clone, Debug)]
struct Abs {
    id: String,
    s1: String,
    s2: String,
    n1: i64,
    n2: i64,
    /// version counter: every other concrete field is derived from it, so an update changes them all
    v: i64,
}

/// the concrete column names of the abstract columns, per collection
fn cols(coll: &str) -> [&'static str; 4] {
    match coll {
        "tasks" => ["state", "pid", "start_time", "end_time"],
        "procs" => ["state", "mid", "start_time", "end_time"],
        "models" => ["name", "data", "ver", "size"],
        "messages" => ["key", "tag", "start_time", "retry_times"],
        "events" => ["name", "mid", "ver", "create_time"],
        "packages" => ["desc", "icon", "create_time", "update_time"],
        _ => panic!("collection"),
    }
}

fn t(a: &Abs, f: &str) -> String {
    format!("{}-{}-{}", f, a.id, a.v)
}

fn mk_task(a: &Abs) -> data::Task {
    data::Task {
        id: a.id.clone(),
        pid: a.s2.clone(),
        tid: t(a, "tid"),
        node_data: t(a, "node"),
        kind: t(a, "kind"),
        prev: Some(t(a, "prev")),
        name: t(a, "name"),
        state: a.s1.clone(),
        data: t(a, "data"),
        err: Some(t(a, "err")),
        start_time: a.n1,
        end_time: a.n2,
        hooks: t(a, "hooks"),
        timestamp: 1000 + a.v,
    }
}
fn mk_proc(a: &Abs) -> data::Proc {
    data::Proc {
        id: a.id.clone(),
        state: a.s1.clone(),
        mid: a.s2.clone(),
        name: t(a, "name"),
        start_time: a.n1,
        end_time: a.n2,
        timestamp: 2000 + a.v,
        model: t(a, "model"),
        env: t(a, "env"),
        err: Some(t(a, "err")),
    }
}
fn mk_model(a: &Abs) -> data::Model {
    data::Model {
        id: a.id.clone(),
        name: a.s1.clone(),
        ver: a.n1 as i32,
        size: a.n2 as i32,
        create_time: 3000 + a.v,
        update_time: 4000 + a.v,
        data: a.s2.clone(),
        timestamp: 5000 + a.v,
    }
}
fn mk_message(a: &Abs) -> data::Message {
    data::Message {
        id: a.id.clone(),
        tid: t(a, "tid"),
        name: t(a, "name"),
        state: MessageState::Created,
        r#type: t(a, "type"),
        model: t(a, "model"),
        pid: t(a, "pid"),
        nid: t(a, "nid"),
        mid: t(a, "mid"),
        key: a.s1.clone(),
        uses: t(a, "uses"),
        inputs: t(a, "inputs"),
        outputs: t(a, "outputs"),
        tag: a.s2.clone(),
        start_time: a.n1,
        end_time: 6000 + a.v,
        chan_id: t(a, "chan"),
        chan_pattern: t(a, "pat"),
        create_time: 7000 + a.v,
        update_time: 8000 + a.v,
        retry_times: a.n2 as i32,
        status: data::MessageStatus::Acked,
        timestamp: 9000 + a.v,
    }
}
fn mk_event(a: &Abs) -> data::Event {
    data::Event {
        id: a.id.clone(),
        name: a.s1.clone(),
        mid: a.s2.clone(),
        ver: a.n1 as i32,
        uses: t(a, "uses"),
        params: t(a, "params"),
        create_time: a.n2,
        timestamp: 10000 + a.v,
    }
}
fn mk_package(a: &Abs) -> data::Package {
    data::Package {
        id: a.id.clone(),
        desc: a.s1.clone(),
        icon: a.s2.clone(),
        doc: t(a, "doc"),
        version: t(a, "version"),
        schema: t(a, "schema"),
        run_as: ActRunAs::Msg,
        resources: t(a, "resources"),
        catalog: ActPackageCatalog::Transform,
        built_in: a.v % 2 == 0,
        create_time: a.n1,
        update_time: a.n2,
        timestamp: 11000 + a.v,
    }
}

/// one collection behind a uniform interface; records travel as serde_json values
trait Coll {
    fn create(&self, a: &Abs) -> Result<bool, String>;
    fn update(&self, a: &Abs) -> Result<bool, String>;
    fn delete(&self, id: &str) -> Result<bool, String>;
    /// Ok(Some(equal)) if found: is it equal in every field to what `a` would write
    fn find(&self, id: &str, a: Option<&Abs>) -> Result<Option<bool>, String>;
    fn query(&self, q: &Query) -> Result<(Vec<String>, usize), String>;
}

macro_rules! coll_impl {
    ($name:ident, $ty:ty, $mk:ident) => {
        struct $name(Arc<dyn DbCollection<Item = $ty>>);
        impl Coll for $name {
            fn create(&self, a: &Abs) -> Result<bool, String> {
                self.0.create(&$mk(a)).map_err(|e| e.to_string())
            }
            fn update(&self, a: &Abs) -> Result<bool, String> {
                self.0.update(&$mk(a)).map_err(|e| e.to_string())
            }
            fn delete(&self, id: &str) -> Result<bool, String> {
                self.0.delete(id).map_err(|e| e.to_string())
            }
            fn find(&self, id: &str, a: Option<&Abs>) -> Result<Option<bool>, String> {
                match self.0.find(id) {
                    Ok(r) => {
                        let got = serde_json::to_value(&r).unwrap();
                        let equal = match a {
                            Some(a) => got == serde_json::to_value(&$mk(a)).unwrap(),
                            None => false,
                        };
                        Ok(Some(equal))
                    }
                    Err(_) => Ok(None),
                }
            }
            fn query(&self, q: &Query) -> Result<(Vec<String>, usize), String> {
                let p = self.0.query(q).map_err(|e| e.to_string())?;
                Ok((p.rows.iter().map(|r| r.id.clone()).collect(), p.count))
            }
        }
    };
}
coll_impl!(TaskColl, data::Task, mk_task);
coll_impl!(ProcColl, data::Proc, mk_proc);
coll_impl!(ModelColl, data::Model, mk_model);
coll_impl!(MessageColl, data::Message, mk_message);
coll_impl!(EventColl, data::Event, mk_event);
coll_impl!(PackageColl, data::Package, mk_package);

const STRS: [&str; 3] = ["a", "b", "c"];
const NUMS: [i64; 5] = [1, 2, 9, 10, 100];

fn rand_abs(id: &str, v: i64, rng: &mut StdRng) -> Abs {
    Abs {
        id: id.to_string(),
        s1: STRS.choose(rng).unwrap().to_string(),
        s2: STRS.choose(rng).unwrap().to_string(),
        n1: *NUMS.choose(rng).unwrap(),
        n2: *NUMS.choose(rng).unwrap(),
        v,
    }
}

fn abs_json(a: &Abs) -> Value {
    json!({"id": a.id, "s1": a.s1, "s2": a.s2, "n1": a.n1, "n2": a.n2})
}

/// a random query in abstract form plus the engine's Query built from it
fn rand_query(coll: &str, rng: &mut StdRng) -> (Value, Query) {
    let c = cols(coll);
    let mut q = Query::new();
    let mut conds = Vec::new();
    for _ in 0..rng.gen_range(0..3) {
        let or = rng.gen_bool(0.5);
        let mut cond = if or { Cond::or() } else { Cond::and() };
        let mut exprs = Vec::new();
        for _ in 0..rng.gen_range(1..3) {
            if rng.gen_bool(0.4) {
                let f = rng.gen_range(0..2);
                let v = if rng.gen_bool(0.15) { "zz" } else { *STRS.choose(rng).unwrap() };
                let op = if rng.gen_bool(0.7) { "eq" } else { "ne" };
                cond = cond.push(if op == "eq" { Expr::eq(c[f], v) } else { Expr::ne(c[f], v) });
                exprs.push(json!({"f": if f == 0 { "s1" } else { "s2" }, "op": op, "s": v, "n": 0}));
            } else {
                let f = rng.gen_range(2..4);
                let v: i64 = *[1, 2, 5, 9, 10, 100, 1000].choose(rng).unwrap();
                let op = *["eq", "ne", "lt", "le", "gt", "ge"].choose(rng).unwrap();
                cond = cond.push(match op {
                    "eq" => Expr::eq(c[f], v),
                    "ne" => Expr::ne(c[f], v),
                    "lt" => Expr::lt(c[f], v),
                    "le" => Expr::le(c[f], v),
                    "gt" => Expr::gt(c[f], v),
                    _ => Expr::ge(c[f], v),
                });
                exprs.push(json!({"f": if f == 2 { "n1" } else { "n2" }, "op": op, "s": "nil", "n": v}));
            }
        }
        q = q.push(cond);
        conds.push(json!({"or": or, "exprs": exprs}));
    }
    let mut order = Vec::new();
    let keys = ["n1", "n2", "s1", "id"];
    for _ in 0..rng.gen_range(0..3) {
        let k = *keys.choose(rng).unwrap();
        if order.iter().any(|o: &Value| o["k"] == k) {
            continue;
        }
        let rev = rng.gen_bool(0.5);
        let col = match k {
            "n1" => c[2],
            "n2" => c[3],
            "s1" => c[0],
            _ => "id",
        };
        q = q.push_order(col, rev);
        order.push(json!({"k": k, "rev": rev}));
    }
    let offset = *[0usize, 0, 1, 2, 3, 7].choose(rng).unwrap();
    let limit = *[1usize, 2, 3, 5, 100].choose(rng).unwrap();
    q = q.set_offset(offset).set_limit(limit);
    (json!({"conds": conds, "order": order, "offset": offset, "limit": limit}), q)
}

pub async fn scenario(coll: &str, sqlite: bool, ops: usize, rng: &mut StdRng, workdir: &str, sc: usize) -> Vec<Value> {
    verif::reset();
    std::fs::create_dir_all(workdir).unwrap();
    let dbfile = format!("{workdir}/store-{}-{sc}.db", std::process::id());
    let _ = std::fs::remove_file(&dbfile);
    let mut cfg = "tick_interval_secs = 3600\n".to_string();
    if sqlite {
        cfg.push_str(&format!("[sqlite]\ndatabase_url = \"{dbfile}\"\n"));
    }
    let cfgfile = format!("{workdir}/store-{}-{sc}.toml", std::process::id());
    std::fs::write(&cfgfile, cfg).unwrap();
    let mut builder = EngineBuilder::new().set_config_source(std::path::Path::new(&cfgfile));
    if sqlite {
        builder = builder.add_plugin(&acts_store_sqlite::SqliteStore);
    }
    let engine = builder.build().await.expect("engine").start();
    let _ = std::fs::remove_file(&cfgfile);
    let store = verif::store(&engine);
    let c: Box<dyn Coll> = match coll {
        "tasks" => Box::new(TaskColl(store.tasks())),
        "procs" => Box::new(ProcColl(store.procs())),
        "models" => Box::new(ModelColl(store.models())),
        "messages" => Box::new(MessageColl(store.messages())),
        "events" => Box::new(EventColl(store.events())),
        "packages" => Box::new(PackageColl(store.packages())),
        _ => panic!("collection"),
    };
    if coll == "packages" {
        // the engine registers its built-in packages at start-up: begin with an empty collection
        if let Ok(p) = store.packages().query(&Query::new()) {
            for r in p.rows {
                let _ = store.packages().delete(&r.id);
            }
        }
    }
    let mut lines = vec![json!({"ev": "storemodel", "coll": coll, "backend": if sqlite { "sqlite" } else { "mem" }})];
    // what the driver believes is stored (to choose valid operations and to judge `equal`)
    let mut live: std::collections::BTreeMap<String, Abs> = Default::default();
    // the packages collection is pre-filled by the engine: query only what we wrote (ids x..)
    let ids: Vec<String> = (1..=5).map(|i| format!("x{i}")).collect();
    let mut v = 0i64;
    for _ in 0..ops {
        let r: f64 = rng.r#gen();
        let free: Vec<&String> = ids.iter().filter(|i| !live.contains_key(*i)).collect();
        let used: Vec<String> = live.keys().cloned().collect();
        if (r < 0.3 || used.is_empty()) && !free.is_empty() {
            v += 1;
            let a = rand_abs(free.choose(rng).unwrap(), v, rng);
            let res = c.create(&a);
            live.insert(a.id.clone(), a.clone());
            lines.push(json!({"ev": "store", "op": "create", "rec": abs_json(&a), "ok": res == Ok(true), "res": format!("{res:?}")}));
        } else if r < 0.45 && !used.is_empty() {
            v += 1;
            let a = rand_abs(used.choose(rng).unwrap(), v, rng);
            let res = c.update(&a);
            live.insert(a.id.clone(), a.clone());
            lines.push(json!({"ev": "store", "op": "update", "rec": abs_json(&a), "ok": res == Ok(true), "res": format!("{res:?}")}));
        } else if r < 0.55 && !used.is_empty() {
            let id = used.choose(rng).unwrap().clone();
            let res = c.delete(&id);
            live.remove(&id);
            lines.push(json!({"ev": "store", "op": "delete", "id": id, "ok": res == Ok(true), "res": format!("{res:?}")}));
        } else if r < 0.7 {
            let id = ids.choose(rng).unwrap().clone();
            let res = c.find(&id, live.get(&id));
            let (found, equal) = match &res {
                Ok(Some(e)) => (true, *e),
                _ => (false, false),
            };
            lines.push(json!({"ev": "store", "op": "find", "id": id, "found": found, "equal": equal}));
        } else {
            let (aq, q) = rand_query(coll, rng);
            match c.query(&q) {
                Ok((rows, count)) => {
                    // the packages collection also holds the engine's built-in packages: keep ours
                    let ours: Vec<&String> = rows.iter().filter(|i| ids.contains(i)).collect();
                    let foreign = rows.len() - ours.len();
                    lines.push(json!({"ev": "store", "op": "query", "q": aq, "ids": ours, "count": count,
                        "foreign": foreign, "ok": true}));
                }
                Err(e) => lines.push(json!({"ev": "store", "op": "query", "q": aq, "ids": [], "count": 0,
                    "foreign": 0, "ok": false, "err": e})),
            }
        }
    }
    let _ = std::fs::remove_file(&dbfile);
    lines
}

pub fn run(args: &Args) -> i32 {
    let mut out = Out::new(&args.str("out", "store.ndjson"));
    let seed = args.num("seed", 1);
    let runs = args.num("runs", 20) as usize;
    let ops = args.num("ops", 40) as usize;
    let workdir = args.str("workdir", "/verif/.work/run");
    let backend = args.str("backend", "mem");
    let coll = args.str("coll", "tasks");
    let mut rng = StdRng::seed_from_u64(seed);
    let rt = crate::runtime("ct");
    for i in 0..runs {
        let lines = rt.block_on(scenario(&coll, backend == "sqlite", ops, &mut rng, &workdir, i));
        out.write(&lines);
    }
    out.flush();
    eprintln!("store: {} runs, {} lines", runs, out.lines);
    0
}
