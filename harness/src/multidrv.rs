//! Several processes in one engine (C13, C15): bundles of models (gen.py: the lines of a bundle are
//! consecutive, the main model last), several client-started processes, sub-workflow calls whose
//! children are launched and whose returns are run as separate gated steps.
//!
//! Gated mode records every step for STRICT / OBSERVE exactly like the single-process drivers.
//! Natural mode (`--rt mtN`, `--cap K`) starts everything at once on the engine's own threads,
//! answers every interrupt, and records the final projection of every process.

use crate::drivers::engine_tree;
use crate::world::{Cfg, Key, World, key_json};
use crate::{Args, Out, read_ndjson, runtime};
use acts::verif;
use rand::rngs::StdRng;
use rand::seq::SliceRandom;
use rand::{Rng, SeedableRng};
use serde_json::{Value, json};

fn collect_cpids(spec: &Value, acc: &mut Vec<String>) {
    match spec {
        Value::Object(map) => {
            if let Some(c) = map.get("cpid").and_then(|v| v.as_str()) {
                if !acc.contains(&c.to_string()) {
                    acc.push(c.to_string());
                }
            }
            for v in map.values() {
                collect_cpids(v, acc);
            }
        }
        Value::Array(a) => a.iter().for_each(|v| collect_cpids(v, acc)),
        _ => {}
    }
}

fn step_ids(spec: &Value, acc: &mut Vec<String>) {
    match spec {
        Value::Object(map) => {
            if map.contains_key("branches") && map.contains_key("acts") {
                if let Some(id) = map.get("id").and_then(|v| v.as_str()) {
                    acc.push(id.to_string());
                }
            }
            map.values().for_each(|v| step_ids(v, acc));
        }
        Value::Array(a) => a.iter().for_each(|v| step_ids(v, acc)),
        _ => {}
    }
}

/// the bundles of a models file: consecutive lines with the same `bundle`, main model last
pub fn bundles(models: &[Value]) -> Vec<Vec<Value>> {
    let mut out: Vec<Vec<Value>> = Vec::new();
    let mut cur: Vec<Value> = Vec::new();
    for m in models {
        cur.push(m.clone());
        if m["spec"]["boff"].as_u64().unwrap_or(0) == 0 {
            out.push(std::mem::take(&mut cur));
        }
    }
    out
}

#[derive(Clone, Debug)]
enum Choice {
    Start(String, usize, Value), // pid, model offset, inputs
    Launch(String),
    Return(String, String), // parent pid, parent tid
    Exec(String, Key),
    Act(String, Key, String, Value, bool),
}

impl Choice {
    fn label(&self) -> String {
        match self {
            Choice::Start(p, mo, i) => format!("S:{p}:{mo}:{i}"),
            Choice::Launch(p) => format!("L:{p}"),
            Choice::Return(p, t) => format!("R:{p}:{t}"),
            Choice::Exec(p, k) => format!("E:{p}:{}#{}", k.0, k.1),
            Choice::Act(p, k, kind, o, _) => format!("A:{p}:{}#{}:{}:{}", k.0, k.1, kind, o),
        }
    }
}

pub struct Params {
    pub max_steps: usize,
    pub budget: usize,
    pub kinds: Vec<String>,
    pub tops: usize,
    pub dup_starts: bool,
}

fn state_key(w: &World, pids: &[String], budget: usize) -> String {
    let mut parts = Vec::new();
    for pid in pids {
        let mut ts: Vec<String> = w.tasks_of(pid).iter().map(|t| format!("{}#{}:{}", t.0.0, t.0.1, t.2)).collect();
        ts.sort();
        let mut q: Vec<String> = w.parked(pid).iter().map(|k| format!("{}#{}", k.0, k.1)).collect();
        q.sort();
        parts.push(format!("{pid}[{}|{}]", ts.join(","), q.join(",")));
    }
    let mut jobs: Vec<String> = verif::jobs_list().iter().map(|(k, a, b)| format!("{k}:{a}:{b}")).collect();
    jobs.sort();
    format!("{}|{}|{}", parts.join(";"), jobs.join(","), budget)
}

fn hash_of(parts: &[&str]) -> u64 {
    use std::hash::{Hash, Hasher};
    let mut h = std::collections::hash_map::DefaultHasher::new();
    for p in parts {
        p.hash(&mut h);
    }
    h.finish()
}

pub async fn gated_scenario(
    bundle: &[Value],
    cfg: &Cfg,
    workdir: &str,
    rng: &mut StdRng,
    p: &Params,
    visits: &mut std::collections::HashMap<u64, u32>,
) -> Vec<Value> {
    let main = bundle.last().unwrap();
    let mut w = World::new(cfg, workdir, "m", &main["spec"]).await;
    // model lines: the others first (submodel), the main one last (model: resets the scenario)
    let mut ok = true;
    for (i, ln) in bundle.iter().enumerate() {
        let tree = engine_tree(ln["model"].as_str().unwrap());
        ok = ok && tree["ok"] == json!(true);
        let inputs = &ln["inputs"][0];
        if i + 1 == bundle.len() {
            w.model_line(ln["name"].as_str().unwrap(), tree, inputs, json!({"bundle": main["bundle"], "tops": p.tops}));
        } else {
            w.lines.push(json!({"ev": "submodel", "name": ln["name"], "model": ln["spec"], "tree": tree, "inputs": inputs,
                "keep": cfg.keep, "cfg": {"keep": cfg.keep, "cap": cfg.cap}}));
        }
    }
    if !ok {
        return std::mem::take(&mut w.lines);
    }
    for ln in bundle {
        if let Err(e) = w.deploy(ln["model"].as_str().unwrap()) {
            w.lines.push(json!({"ev": "note", "what": "deploy failed", "err": e}));
            return std::mem::take(&mut w.lines);
        }
    }
    // every process id of the scenario is known from the start: the client's and the children's
    let tops: Vec<String> = (1..=p.tops).map(|i| format!("p{i}")).collect();
    let mut all = tops.clone();
    for ln in bundle {
        collect_cpids(&ln["spec"], &mut all);
    }
    w.pids = all.clone();
    let mut started: Vec<String> = Vec::new();
    let mut sids: std::collections::HashMap<String, Vec<String>> = Default::default();
    for ln in bundle {
        let mut v = Vec::new();
        step_ids(&ln["spec"], &mut v);
        sids.insert(ln["spec"]["id"].as_str().unwrap().to_string(), v);
    }
    let nb = bundle.len();
    let mut budget = p.budget;
    let scope = main["name"].as_str().unwrap().to_string();
    let none = json!({"ecode": "nil", "to": "nil"});
    for _ in 0..p.max_steps {
        if w.stuck {
            break;
        }
        let mut choices: Vec<Choice> = Vec::new();
        // starts: the first client process runs the main model; the others any model of the bundle
        for (i, pid) in tops.iter().enumerate() {
            let fresh = !started.contains(pid);
            if fresh || (p.dup_starts && budget > 0) {
                let offs: Vec<usize> = if i == 0 || nb == 1 { vec![0] } else { (0..nb).collect() };
                for mo in offs {
                    let ln = &bundle[nb - 1 - mo];
                    for inp in ln["inputs"].as_array().unwrap() {
                        choices.push(Choice::Start(pid.clone(), mo, inp.clone()));
                    }
                }
            }
        }
        for (k, a, b) in verif::jobs_list() {
            if k == "launch" {
                choices.push(Choice::Launch(a.clone()));
            } else if k == "return" {
                choices.push(Choice::Return(a.clone(), b.clone()));
            }
        }
        for pid in &all {
            for k in w.parked(pid) {
                choices.push(Choice::Exec(pid.clone(), k));
            }
            let tasks = w.tasks_of(pid);
            for t in &tasks {
                if t.1 == "act" && t.2 == "interrupted" {
                    choices.push(Choice::Act(pid.clone(), t.0.clone(), "complete".to_string(), none.clone(), true));
                }
            }
            if budget > 0 {
                for t in &tasks {
                    // (a sub-workflow call is never announced to clients: no message carries its task id)
                    if t.1 != "act" || t.3 == "acts.core.subflow" {
                        continue;
                    }
                    for kind in &p.kinds {
                        if kind == "complete" && t.2 == "interrupted" {
                            continue;
                        }
                        match kind.as_str() {
                            "error" => {
                                for c in ["e1", "e2"] {
                                    choices.push(Choice::Act(pid.clone(), t.0.clone(), kind.clone(), json!({"ecode": c, "to": "nil"}), false));
                                }
                            }
                            "back" => {}
                            _ => choices.push(Choice::Act(pid.clone(), t.0.clone(), kind.clone(), none.clone(), false)),
                        }
                    }
                }
            }
        }
        if choices.is_empty() {
            break;
        }
        let sk = state_key(&w, &all, budget);
        let counts: Vec<u32> = choices.iter().map(|c| *visits.get(&hash_of(&[&scope, &sk, &c.label()])).unwrap_or(&0)).collect();
        let min = *counts.iter().min().unwrap();
        let best: Vec<usize> = (0..choices.len()).filter(|i| counts[*i] == min).collect();
        let pick = choices[*best.choose(rng).unwrap()].clone();
        *visits.entry(hash_of(&[&scope, &sk, &pick.label()])).or_insert(0) += 1;
        match &pick {
            Choice::Start(pid, mo, inp) => {
                let dup = started.contains(pid);
                let mid = bundle[nb - 1 - mo]["spec"]["id"].as_str().unwrap().to_string();
                let ok = w.start_model(&mid, *mo, pid, inp).await;
                if ok && !dup {
                    started.push(pid.clone());
                }
                if dup {
                    budget -= 1;
                }
            }
            Choice::Launch(pid) => {
                w.launch(pid).await;
            }
            Choice::Return(pp, pt) => {
                w.ret(pp, pt).await;
            }
            Choice::Exec(pid, k) => {
                w.exec_task(pid, k).await;
            }
            Choice::Act(pid, k, kind, opts, free) => {
                w.act(pid, k, kind, opts).await;
                if !free {
                    budget -= 1;
                }
            }
        }
    }
    w.lines.push(json!({"ev": "end", "steps": w.steps}));
    let _ = key_json;
    let _ = rng.gen_bool(0.5);
    std::mem::take(&mut w.lines)
}

/// ungated: `n` processes started in one burst on the engine's own threads, every interrupt answered
/// in bursts; one recorded step per burst (a quiescent point), carrying what was called
pub async fn natural_scenario(bundle: &[Value], cfg: &Cfg, workdir: &str, rng: &mut StdRng, n: usize, flavour: &str) -> Vec<Value> {
    let main = bundle.last().unwrap();
    let mut w = World::new_with(cfg, workdir, "mn", &main["spec"], false).await;
    let mut ok = true;
    for (i, ln) in bundle.iter().enumerate() {
        let tree = engine_tree(ln["model"].as_str().unwrap());
        ok = ok && tree["ok"] == json!(true);
        let inputs = &ln["inputs"][0];
        if i + 1 == bundle.len() {
            w.model_line(ln["name"].as_str().unwrap(), tree, inputs, json!({"bundle": main["bundle"], "natural": true, "rt": flavour, "n": n, "cap": cfg.cap}));
        } else {
            w.lines.push(json!({"ev": "submodel", "name": ln["name"], "model": ln["spec"], "tree": tree, "inputs": inputs,
                "keep": cfg.keep, "cfg": {"keep": cfg.keep, "cap": cfg.cap}}));
        }
    }
    if !ok {
        return std::mem::take(&mut w.lines);
    }
    for ln in bundle {
        if w.deploy(ln["model"].as_str().unwrap()).is_err() {
            return std::mem::take(&mut w.lines);
        }
    }
    let nb = bundle.len();
    let pids: Vec<String> = (1..=n).map(|i| format!("p{i}")).collect();
    w.pids = pids.clone();
    // the burst of starts
    let mut starts = Vec::new();
    for pid in &pids {
        let mo = rng.gen_range(0..nb);
        let ln = &bundle[nb - 1 - mo];
        let inp = ln["inputs"].as_array().unwrap().choose(rng).unwrap().clone();
        let mut vars = acts::Vars::new();
        if let Value::Object(map) = &inp {
            for (k, v) in map {
                vars.insert(k.clone(), v.clone());
            }
        }
        vars.insert("pid".to_string(), json!(pid));
        let res = w.exec.proc().start(ln["spec"]["id"].as_str().unwrap(), &vars);
        starts.push(json!({"pid": pid, "mo": mo, "inputs": inp, "res": if res.is_ok() { "ok" } else { "err" }}));
    }
    w.record(json!({"a": "Burst", "pid": "nil", "starts": starts, "acts": [], "res": "ok"})).await;
    // bursts of answers until nothing is open
    for _ in 0..40 {
        if w.stuck {
            break;
        }
        let mut acts_done = Vec::new();
        for pid in &pids {
            // at most one answer per process and burst: the bursts are about many processes at
            // once, not about several client calls racing on one process
            let mut answered = false;
            for t in w.tasks_of(pid) {
                if !answered && t.1 == "act" && t.2 == "interrupted" && rng.gen_bool(0.8) {
                    answered = true;
                    if let Some(tid) = w.tid_of(pid, &t.0) {
                        let res = w.exec.act().complete(pid, &tid, &acts::Vars::new());
                        acts_done.push(json!({"pid": pid, "t": key_json(&t.0), "kind": "complete",
                            "res": if res.is_ok() { "ok" } else { "err" }}));
                    }
                }
            }
        }
        let open = pids.iter().any(|pid| w.tasks_of(pid).iter().any(|t| t.1 == "act" && t.2 == "interrupted"));
        if acts_done.is_empty() && !open {
            break;
        }
        if acts_done.is_empty() {
            continue;
        }
        w.record(json!({"a": "Burst", "pid": "nil", "starts": [], "acts": acts_done, "res": "ok"})).await;
    }
    w.lines.push(json!({"ev": "end", "steps": w.steps}));
    std::mem::take(&mut w.lines)
}

pub fn run(args: &Args) -> i32 {
    let models = read_ndjson(&args.str("models", ""));
    let bs = bundles(&models);
    let mut out = Out::new(&args.str("out", "multi.ndjson"));
    let seed = args.num("seed", 1);
    let runs = args.num("runs", 10) as usize;
    let workdir = args.str("workdir", "/verif/.work/run");
    let p = Params {
        max_steps: args.num("steps", 80) as usize,
        budget: args.num("budget", 1) as usize,
        kinds: args.str("kinds", "complete").split(',').map(|s| s.to_string()).collect(),
        tops: args.num("tops", 1) as usize,
        dup_starts: args.get("dups").is_some(),
    };
    let mut cfg = Cfg::default();
    cfg.keep = args.get("nokeep").is_none();
    cfg.cap = args.num("cap", 1024) as i64;
    let mut rng = StdRng::seed_from_u64(seed);
    let rt = runtime(&args.str("rt", "ct"));
    let offset = args.num("offset", 0) as usize;
    let mut visits = std::collections::HashMap::new();
    if args.get("natural").is_some() {
        // thread counts and cache capacities in rotation
        let flavours: Vec<String> = args.str("rt", "ct,mt1,mt2,mt4,mt8").split(',').map(|s| s.to_string()).collect();
        let rts: Vec<tokio::runtime::Runtime> = flavours.iter().map(|f| runtime(f)).collect();
        let caps: Vec<i64> = args.str("caps", "1,2,4,1024").split(',').map(|s| s.parse().unwrap()).collect();
        let ns: Vec<usize> = args.str("procs", "2,4,8,16").split(',').map(|s| s.parse().unwrap()).collect();
        for i in 0..runs {
            let b = &bs[(offset + i) % bs.len()];
            let mut c = cfg.clone();
            c.cap = caps[(i / flavours.len()) % caps.len()];
            let n = ns[(i / (flavours.len() * caps.len())) % ns.len()];
            let lines = rts[i % flavours.len()].block_on(natural_scenario(b, &c, &workdir, &mut rng, n, &flavours[i % flavours.len()]));
            out.write(&lines);
        }
        out.flush();
        eprintln!("multi natural: {} runs, {} lines", runs, out.lines);
        return 0;
    }
    for i in 0..runs {
        let b = &bs[(offset + i) % bs.len()];
        let lines = rt.block_on(gated_scenario(b, &cfg, &workdir, &mut rng, &p, &mut visits));
        out.write(&lines);
    }
    out.flush();
    eprintln!("multi: {} runs, {} lines", runs, out.lines);
    0
}
