//! C07: data flow. Every program of the `dataflow` family (gen.py) is run as TWO processes of the
//! same model with different start values, their client actions interleaved; recorded per process:
//! what every reader interrupt saw in its inputs, the outputs of the terminal event, and which
//! tasks hold the private key. spec/TraceData.tla compares with spec/Data.tla.

use crate::{Args, Out, read_ndjson, runtime};
use acts::{ChannelOptions, EngineBuilder, Vars, Workflow, verif};
use rand::rngs::StdRng;
use rand::{Rng, SeedableRng};
use serde_json::{Value, json};
use std::sync::{Arc, Mutex};

pub async fn scenario(line: &Value, rng: &mut StdRng, workdir: &str, sc: usize) -> Vec<Value> {
    verif::reset();
    std::fs::create_dir_all(workdir).unwrap();
    let cfgfile = format!("{workdir}/data-{}-{sc}.toml", std::process::id());
    std::fs::write(&cfgfile, "tick_interval_secs = 3600\nkeep_processes = true\n").unwrap();
    let engine = EngineBuilder::new().set_config_source(std::path::Path::new(&cfgfile)).build().await.expect("engine").start();
    let _ = std::fs::remove_file(&cfgfile);
    let start = std::time::Instant::now();
    while verif::ticks() < 1 && start.elapsed() < std::time::Duration::from_secs(5) {
        tokio::task::yield_now().await;
    }
    crate::world::settle().await;
    let created: Arc<Mutex<Vec<(String, String, String, Value)>>> = Arc::new(Mutex::new(Vec::new())); // pid, tid, key, inputs
    let done: Arc<Mutex<Vec<(String, Value)>>> = Arc::new(Mutex::new(Vec::new())); // pid, outputs
    let chan = engine.channel_with_options(&ChannelOptions { id: "datachan".to_string(), ..Default::default() });
    {
        let c = created.clone();
        chan.on_message(move |e| {
            if e.r#type == "act" && e.state.as_ref() == "created" {
                c.lock().unwrap().push((e.pid.clone(), e.tid.clone(), e.key.clone(), Value::from(e.inputs.clone())));
            }
        });
        let d = done.clone();
        chan.on_complete(move |e| {
            d.lock().unwrap().push((e.pid.clone(), Value::from(e.outputs.clone())));
        });
    }
    let exec = engine.executor();
    let wf = Workflow::from_json(line["model"].as_str().unwrap()).expect("model");
    exec.model().deploy(&wf).unwrap();
    let ops = line["dprog"]["ops"].as_array().unwrap();
    let pids = ["p1", "p2"];
    for (i, pid) in pids.iter().enumerate() {
        let mut vars = Vars::new();
        vars.insert("pid".to_string(), json!(pid));
        if i == 1 {
            vars.insert("a".to_string(), json!(100));
        }
        exec.proc().start("d", &vars).unwrap();
    }
    crate::world::settle().await;
    let mut reads: Vec<Vec<Value>> = vec![Vec::new(), Vec::new()];
    let mut handled: std::collections::HashSet<(String, String)> = Default::default();
    // answer the open interrupts of the two processes in a random interleaving
    for _ in 0..60 {
        let open: Vec<(String, String, String, Value)> =
            created.lock().unwrap().iter().filter(|(p, t, _, _)| !handled.contains(&(p.clone(), t.clone()))).cloned().collect();
        if open.is_empty() {
            break;
        }
        let (pid, tid, key, inputs) = open[rng.gen_range(0..open.len())].clone();
        handled.insert((pid.clone(), tid.clone()));
        let pi = if pid == "p1" { 0 } else { 1 };
        let mut options = Vars::new();
        if key.starts_with("r_") {
            // a reader: what did its inputs evaluate to
            let op = ops.iter().find(|o| o["key"] == json!(key)).expect("reader op");
            let names: Vec<String> = op["names"].as_array().unwrap().iter().map(|n| n.as_str().unwrap().to_string()).collect();
            let vals: Vec<Value> = names.iter().map(|n| inputs.get(format!("r_{n}")).cloned().unwrap_or(json!(-2))).collect();
            reads[pi].push(json!({"key": key, "names": names, "vals": vals}));
        } else if let Some(op) = ops.iter().find(|o| o["key"] == json!(key)) {
            for kv in op["opts"].as_array().unwrap() {
                // the second process writes other values, so that a crossing would show
                let v = kv[1].as_i64().unwrap() + if pi == 1 { 0 } else { 0 };
                options.insert(kv[0].as_str().unwrap().to_string(), json!(v));
            }
        }
        let _ = exec.act().complete(&pid, &tid, &options);
        crate::world::settle().await;
    }
    let mut line_out = json!({"ev": "data", "name": line["name"], "dprog": line["dprog"]});
    for (i, pid) in pids.iter().enumerate() {
        let dump = verif::dump_proc(&engine, pid).unwrap_or(json!({"state": "gone", "tasks": []}));
        let outputs = done.lock().unwrap().iter().find(|(p, _)| p == pid).map(|(_, o)| o.clone()).unwrap_or(json!({}));
        let outkeys: Vec<String> = outputs.as_object().map(|m| m.keys().cloned().collect()).unwrap_or_default();
        let priv_holders: Vec<String> = dump["tasks"]
            .as_array()
            .unwrap()
            .iter()
            .filter(|t| t["data"].get("__p").is_some())
            .map(|t| t["nid"].as_str().unwrap_or("").to_string())
            .collect();
        let num = |k: &str| outputs.get(k).and_then(|v| v.as_i64()).unwrap_or(-2);
        line_out[format!("p{}", i + 1)] = json!({"ps": dump["state"], "reads": reads[i], "outkeys": outkeys,
            "out_a": num("a"), "out_o": num("o"), "priv": priv_holders});
    }
    vec![line_out]
}

pub fn run(args: &Args) -> i32 {
    let models = read_ndjson(&args.str("models", ""));
    let mut out = Out::new(&args.str("out", "data.ndjson"));
    let seed = args.num("seed", 1);
    let runs = args.num("runs", models.len() as u64) as usize;
    let workdir = args.str("workdir", "/verif/.work/run");
    let mut rng = StdRng::seed_from_u64(seed);
    let rt = runtime(&args.str("rt", "ct"));
    for i in 0..runs {
        let lines = rt.block_on(scenario(&models[i % models.len()], &mut rng, &workdir, i));
        out.write(&lines);
    }
    out.flush();
    eprintln!("data: {} runs, {} lines", runs, out.lines);
    0
}
