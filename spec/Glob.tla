-------------------------------- MODULE Glob --------------------------------
(***************************************************************************)
(* A matcher for the glob language of channel options (C18), independent   *)
(* of the globset crate: patterns are TOKEN sequences                      *)
(*   [t |-> "lit", c]  [t |-> "any"] (one character)  [t |-> "star"]       *)
(*   [t |-> "class", neg, set]  ([abc] / [!abc])                           *)
(*   [t |-> "alt", alts]  ({p1,p2}: each alternative a token sequence)     *)
(* matched against a sequence of characters.  The harness renders the same *)
(* tokens to the pattern text it hands to the engine.                      *)
(***************************************************************************)
EXTENDS Naturals, Sequences, TLC

RECURSIVE Match(_, _)
Match(p, s) ==
  IF p = <<>> THEN s = <<>>
  ELSE LET h == Head(p)  rest == Tail(p) IN
       CASE h.t = "lit"   -> s # <<>> /\ Head(s) = h.c /\ Match(rest, Tail(s))
         [] h.t = "any"   -> s # <<>> /\ Match(rest, Tail(s))
         [] h.t = "star"  -> \E k \in 0..Len(s) : Match(rest, SubSeq(s, k + 1, Len(s)))
         [] h.t = "class" -> /\ s # <<>>
                             /\ ((\E i \in DOMAIN h.set : h.set[i] = Head(s)) # h.neg)
                             /\ Match(rest, Tail(s))
         [] h.t = "alt"   -> \E i \in DOMAIN h.alts : Match(h.alts[i] \o rest, s)
=============================================================================
