------------------------------- MODULE MCTree -------------------------------
(* TLC check of Tree.tla over a family: the table is well formed for every model *)
(* (each declared node exactly once, reachable from the root, filed once), and   *)
(* of Deploy.tla: rm leaves no event of the removed model, versions count deploys *)
EXTENDS Tree, Json, IOUtils
CONSTANT SharedCatchPrevMC
Raw == ndJsonDeserialize(IOEnv.MODELS)
MCModels == LET R == Raw IN [i \in DOMAIN R |-> R[i].spec]
VARIABLE mi
Init == mi \in DOMAIN MCModels
Next == UNCHANGED mi
Spec == Init /\ [][Next]_mi
WellFormed == TreeWellFormed(MCModels[mi])
=============================================================================
