----------------------------- MODULE TraceStore -----------------------------
(***************************************************************************)
(* C10 conformance: the recorded operation sequences of the harness's      *)
(* store driver (six collections, in-memory and SQLite) replayed on the    *)
(* abstract database of StoreQuery.tla.  Lines printed:                    *)
(*   STORE|VIOLATION|<what>|scenario|line                                  *)
(***************************************************************************)
EXTENDS StoreQuery, Json, IOUtils

Log == ndJsonDeserialize(IOEnv.TRACE)

VARIABLES db, l, sc
svars == <<db, l, sc>>

Say(what) == PrintT("STORE|VIOLATION|" \o what \o "|" \o ToString(sc) \o "|" \o ToString(l))
Must(what, ok) == IF ok THEN TRUE ELSE Say(what)

Rec(x) == [id |-> x.id, s1 |-> x.s1, s2 |-> x.s2, n1 |-> x.n1, n2 |-> x.n2]

SModel ==
  /\ l <= Len(Log) /\ Log[l].ev = "storemodel"
  /\ l' = l + 1 /\ sc' = sc + 1 /\ db' = <<>>

SStep ==
  /\ l <= Len(Log) /\ Log[l].ev = "store"
  /\ l' = l + 1 /\ sc' = sc
  /\ LET r == Log[l] IN
     CASE r.op = "create" ->
            /\ Must("create failed", r.ok)
            /\ db' = (r.rec.id :> Rec(r.rec)) @@ db
       [] r.op = "update" ->
            /\ Must("update failed", r.ok)
            /\ db' = [db EXCEPT ![r.rec.id] = Rec(r.rec)]
       [] r.op = "delete" ->
            /\ Must("delete failed", r.ok)
            /\ db' = [x \in DOMAIN db \ {r.id} |-> db[x]]
       [] r.op = "find" ->
            /\ Must("find: a stored record is not found / a deleted one is", r.found = (r.id \in DOMAIN db))
            /\ Must("find: the record differs from the one written (some field)", r.found => r.equal)
            /\ db' = db
       [] r.op = "query" ->
            /\ Must("query failed", r.ok)
            /\ Must("query returned records that were never written", r.foreign = 0)
            /\ Must("query answer differs from the specification (filter / order / page / count)",
                    ~r.ok \/ AnswerOK(db, r.q, r.ids, r.count))
            /\ db' = db

SInit == db = <<>> /\ l = 1 /\ sc = 0
SNext == SModel \/ SStep
SSpec == SInit /\ [][SNext]_svars

SDone ==
  LET d == TLCGet("stats").diameter IN
  IF d - 1 = Len(Log) THEN PrintT("STORE|DONE|" \o ToString(Len(Log)))
  ELSE PrintT("STORE|STUCK|" \o ToString(d)) /\ FALSE
=============================================================================
