------------------------------ MODULE MCDeploy ------------------------------
EXTENDS Deploy
VARIABLE n      \* deploys seen per model id (bookkeeping)
Mids == {"m1", "m2"}
Ons == {"e1", "e2"}
Init == vers = <<>> /\ events = {} /\ n = [m \in Mids |-> 0]
Next ==
  \/ \E m \in Mids, os \in SUBSET Ons : DeployOK(m, os) /\ n' = [n EXCEPT ![m] = @ + 1]
  \/ \E m \in Mids : Rm(m) /\ n' = [n EXCEPT ![m] = 0]
Spec == Init /\ [][Next]_<<vers, events, n>>
Bound == \A m \in Mids : n[m] <= 3
VersionCounts == \A m \in Mids : IF m \in Deployed THEN vers[m] = n[m] ELSE n[m] = 0
EventsOfDeployed == \A e \in events : e.mid \in Deployed
=============================================================================
