---------------------------- MODULE TraceDeploy ----------------------------
(***************************************************************************)
(* C20 conformance, registry half: recorded deploy / rm / start sequences  *)
(* replayed on Deploy.tla.  After every operation the registry the API     *)
(* shows (versions, stored text, events) must be the specification's.      *)
(*   DEPLOY|VIOLATION|<what>|scenario|line                                 *)
(***************************************************************************)
EXTENDS Deploy, Json, IOUtils, Sequences

Log == ndJsonDeserialize(IOEnv.TRACE)
VARIABLES l, sc
tvars == <<dvars, l, sc>>

ToSet(s) == { s[i] : i \in DOMAIN s }
Say(what) == PrintT("DEPLOY|VIOLATION|" \o what \o "|" \o ToString(sc) \o "|" \o ToString(l))
Must(what, ok) == IF ok THEN TRUE ELSE Say(what)

LogVers(r) == { <<x.mid, x.ver>> : x \in ToSet(r.models) }
SpecVers(V) == { <<m, V[m]>> : m \in DOMAIN V }
LogEvents(r) == { x.id : x \in ToSet(r.events) }
SpecEvents(E) == { e.mid \o ":" \o e.on : e \in E }

DModel ==
  /\ l <= Len(Log) /\ Log[l].ev = "deploymodel"
  /\ l' = l + 1 /\ sc' = sc + 1 /\ vers' = <<>> /\ events' = {}

DStep ==
  /\ l <= Len(Log) /\ Log[l].ev = "deploy"
  /\ l' = l + 1 /\ sc' = sc
  /\ LET r == Log[l] IN
     /\ CASE r.op = "Deploy" ->
               IF r.valid
               THEN /\ Must("a valid model is rejected", r.ok)
                    /\ DeployOK(r.mid, ToSet(r.ons))
               ELSE /\ Must("a model with a duplicate node id / without id is accepted", ~r.ok)
                    /\ DeployRejected
          [] r.op = "Rm" -> Rm(r.mid)
          [] r.op = "Start" ->
               /\ Must("start of an unknown model succeeds / of a deployed one fails", r.ok = StartOK(r.mid))
               /\ UNCHANGED dvars
     /\ Must("model versions differ from the specification", SpecVers(vers') = LogVers(r))
     /\ Must("registered events differ from the specification", SpecEvents(events') = LogEvents(r))
     /\ Must("the stored model is not the deployed one", \A x \in ToSet(r.models) : x.same)

DInit == vers = <<>> /\ events = {} /\ l = 1 /\ sc = 0
DNext == DModel \/ DStep
DSpec == DInit /\ [][DNext]_tvars
DDone ==
  LET d == TLCGet("stats").diameter IN
  IF d - 1 = Len(Log) THEN PrintT("DEPLOY|DONE|" \o ToString(Len(Log)))
  ELSE PrintT("DEPLOY|STUCK|" \o ToString(d)) /\ FALSE
=============================================================================
