SPECIFICATION ObsSpec
CONSTANTS
  Models <- TraceModels
  InputSets <- TraceInputSets
  Pids = {"p1"}
  MaxActions = 100000
  ActionKinds = {"complete"}
  ErrCodes = {"e1", "e2"}
  Deviations = {}
  SharedCatchPrev = FALSE
  AdvSet = {1}
  MaxTime = 0
  Keep = TRUE
  WithEvict = TRUE
POSTCONDITION ObsDone
CHECK_DEADLOCK FALSE
