------------------------------ MODULE Channels ------------------------------
(***************************************************************************)
(* Channels (C18): the handler table keyed by channel id                   *)
(* (event/emitter.rs:91-141, 204-228; export/channel.rs:123-216).          *)
(* Registering an id replaces its handler, close / unsub removes it, and a *)
(* message reaches exactly the registered channels whose five patterns     *)
(* select it: type, state, key, uses, and tag against the message tag OR   *)
(* the model tag.                                                          *)
(***************************************************************************)
EXTENDS Glob

Selects(o, m) ==
  /\ Match(o.type, m.type) /\ Match(o.state, m.state)
  /\ (Match(o.tag, m.tag) \/ Match(o.tag, m.mtag))
  /\ Match(o.key, m.key) /\ Match(o.uses, m.uses)

(* chans: id -> options of the channels currently registered *)
Register(chans, id, o) == (id :> o) @@ [c \in DOMAIN chans \ {id} |-> chans[c]]
Remove(chans, id) == [c \in DOMAIN chans \ {id} |-> chans[c]]
Receivers(chans, m) == { id \in DOMAIN chans : Selects(chans[id], m) }
=============================================================================
