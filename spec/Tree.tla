-------------------------------- MODULE Tree --------------------------------
(***************************************************************************)
(* The node table the engine builds from a workflow model.                 *)
(*                                                                         *)
(* A line-by-line transcription of acts/src/scheduler/tree/build.rs and    *)
(* node.rs.  The shape is NOT the YAML nesting: of a list of sibling steps *)
(* (or of the acts of a step) only the first one is a child of the         *)
(* enclosing node, every following one hangs off its predecessor's `next`  *)
(* link (build.rs:54-58, 174-181).                                         *)
(*                                                                         *)
(* A model is the nested record emitted by gen/ (see gen/README):          *)
(*   workflow [id, steps, setup, ...]                                      *)
(*   step     [id, cond, branches, acts, catches, timeouts, setup, next]   *)
(*   branch   [id, cond, else, needs, steps]                               *)
(*   act      [id, uses, cond, catches, timeouts, setup, ...]              *)
(*   catch    [on, steps]      timeout [on, secs, steps]                   *)
(* Absent values are the string "nil" (the Json module rejects null).      *)
(***************************************************************************)
EXTENDS Naturals, Sequences, FiniteSets, TLC

NIL == "nil"
NoCond == [op |-> "none"]       \* TLC cannot compare a string with a record

(* Known deviation F5 (build.rs:87-118, 186-217): all catches (timeouts) of  *)
(* one task share one `catch_prev`, so only the very first catch step is    *)
(* filed as a child under its code and every later catch's steps are        *)
(* chained behind it by `next`.  TRUE = the code as it is.                  *)
CONSTANT SharedCatchPrev

RECURSIVE BuildSteps(_, _, _, _, _, _, _), BuildStep(_, _, _, _, _, _, _),
          BuildBranches(_, _, _, _), BuildActs(_, _, _, _, _),
          BuildCatches(_, _, _, _, _), BuildCatchSteps(_, _, _, _, _, _),
          BuildTimeouts(_, _, _, _, _)

NoOpts == [v |-> 0, w |-> 0]
EmptyNode(kind, level) ==
  [kind |-> kind, level |-> level, parent |-> NIL, prev |-> NIL, next |-> NIL,
   kids |-> <<>>, ckids |-> <<>>, tkids |-> <<>>,
   cond |-> NoCond, else |-> FALSE, needs |-> {}, uses |-> "",
   catches |-> <<>>, timeouts |-> <<>>,
   to |-> NIL, cpid |-> NIL, opts |-> NoOpts]     \* a sub-workflow call (uses = "sub")

(* tree.make: duplicate ids are an error (node_tree.rs:58-66) *)
Make(T, id, node) ==
  IF id \in DOMAIN T.n THEN [T EXCEPT !.err = TRUE]
  ELSE [T EXCEPT !.n = (id :> node) @@ @]

(* Node::set_next(node, is_prev) (node.rs:171-176) *)
SetNext(T, from, to, isPrev) ==
  LET T1 == [T EXCEPT !.n[from].next = to]
  IN IF isPrev THEN [T1 EXCEPT !.n[to].prev = from] ELSE T1

(* Node::set_parent_in (node.rs:160-169) *)
SetParentIn(T, child, typ, on, parent) ==
  LET T1 == [T EXCEPT !.n[child].parent = parent]
  IN CASE typ = "Normal"  -> [T1 EXCEPT !.n[parent].kids  = Append(@, child)]
       [] typ = "Catch"   -> [T1 EXCEPT !.n[parent].ckids = Append(@, [on |-> on, id |-> child])]
       [] typ = "Timeout" -> [T1 EXCEPT !.n[parent].tkids = Append(@, [on |-> on, id |-> child])]

SeqToSet(s) == { s[i] : i \in DOMAIN s }

(* build_step (build.rs:39-122).  Returns [T, prev]. *)
BuildStep(T0, step, parent, prev, level, typ, on) ==
  LET node == [EmptyNode("step", level) EXCEPT
                 !.cond = step.cond,
                 !.catches = [i \in DOMAIN step.catches |-> step.catches[i].on],
                 !.timeouts = [i \in DOMAIN step.timeouts |->
                                 [on |-> step.timeouts[i].on, secs |-> step.timeouts[i].secs]]]
      T1 == Make(T0, step.id, node)
  IN IF T1.err THEN [T |-> T1, prev |-> prev] ELSE
  LET T2 == IF T1.n[prev].level = level THEN SetNext(T1, prev, step.id, TRUE)
            ELSE SetParentIn(T1, step.id, typ, on, parent)
      T3 == IF step.next # NIL
            THEN (IF step.next \in DOMAIN T2.n THEN SetNext(T2, step.id, step.next, FALSE)
                  ELSE [T2 EXCEPT !.warn = TRUE])
            ELSE BuildBranches(T2, step.branches, step.id, level + 1)
      T4 == BuildActs(T3, step.acts, step.id, step.id, level + 1).T
      T5 == BuildCatches(T4, step.catches, step.id, step.id, level + 1).T
      T6 == BuildTimeouts(T5, step.timeouts, step.id, step.id, level + 1).T
  IN [T |-> T6, prev |-> step.id]

BuildSteps(T, steps, parent, prev, level, typ, on) ==
  IF steps = <<>> \/ T.err THEN [T |-> T, prev |-> prev]
  ELSE LET r == BuildStep(T, Head(steps), parent, prev, level, typ, on)
       IN BuildSteps(r.T, Tail(steps), parent, r.prev, level, typ, on)

(* build_branch (build.rs:124-155) *)
BuildBranches(T, branches, parent, level) ==
  IF branches = <<>> \/ T.err THEN T
  ELSE LET b == Head(branches)
           node == [EmptyNode("branch", level) EXCEPT
                      !.cond = b.cond, !.else = b.else, !.needs = SeqToSet(b.needs)]
           T1 == Make(T, b.id, node)
       IN IF T1.err THEN T1 ELSE
          LET T2 == SetParentIn(T1, b.id, "Normal", NIL, parent)
              T3 == BuildSteps(T2, b.steps, b.id, b.id, level + 1, "Normal", NIL).T
          IN BuildBranches(T3, Tail(branches), parent, level)

(* build_act with is_sequence = true (build.rs:157-220) *)
BuildActs(T, acts, parent, prev, level) ==
  IF acts = <<>> \/ T.err THEN [T |-> T, prev |-> prev]
  ELSE LET a == Head(acts)
           node == [EmptyNode("act", level) EXCEPT
                      !.cond = a.cond, !.uses = a.uses,
                      !.to = IF "to" \in DOMAIN a THEN a.to ELSE NIL,
                      !.cpid = IF "cpid" \in DOMAIN a THEN a.cpid ELSE NIL,
                      !.opts = IF "opts" \in DOMAIN a THEN a.opts ELSE NoOpts,
                      !.catches = [i \in DOMAIN a.catches |-> a.catches[i].on],
                      !.timeouts = [i \in DOMAIN a.timeouts |->
                                      [on |-> a.timeouts[i].on, secs |-> a.timeouts[i].secs]]]
           T1 == Make(T, a.id, node)
       IN IF T1.err THEN [T |-> T1, prev |-> prev] ELSE
          LET T2 == IF T1.n[prev].level = level THEN SetNext(T1, prev, a.id, TRUE)
                    ELSE SetParentIn(T1, a.id, "Normal", NIL, parent)
              T3 == BuildCatches(T2, a.catches, a.id, a.id, level + 1).T
              T4 == BuildTimeouts(T3, a.timeouts, a.id, a.id, level + 1).T
          IN BuildActs(T4, Tail(acts), parent, a.id, level)

(* the catch loop of build_step / build_act.  `cprev` is the shared          *)
(* catch_prev; with SharedCatchPrev = FALSE it is reset for every catch.    *)
BuildCatchSteps(T, steps, owner, cprev, level, on) ==
  BuildSteps(T, steps, owner, cprev, level, "Catch", on)

BuildCatches(T, catches, owner, cprev, level) ==
  IF catches = <<>> \/ T.err THEN [T |-> T, prev |-> cprev]
  ELSE LET c == Head(catches)
           r == BuildCatchSteps(T, c.steps, owner, cprev, level, c.on)
       IN BuildCatches(r.T, Tail(catches), owner,
                       IF SharedCatchPrev THEN r.prev ELSE owner, level)

BuildTimeouts(T, timeouts, owner, tprev, level) ==
  IF timeouts = <<>> \/ T.err THEN [T |-> T, prev |-> tprev]
  ELSE LET c == Head(timeouts)
           r == BuildSteps(T, c.steps, owner, tprev, level, "Timeout", c.on)
       IN BuildTimeouts(r.T, Tail(timeouts), owner,
                        IF SharedCatchPrev THEN r.prev ELSE owner, level)

(* build_workflow (build.rs:11-37) *)
Flatten(m) ==
  LET root == EmptyNode("workflow", 0)
      T0 == [n |-> (m.id :> root), err |-> FALSE, warn |-> FALSE]
  IN BuildSteps(T0, m.steps, m.id, m.id, 1, "Normal", NIL).T

-----------------------------------------------------------------------------
(* Well-formedness of the table with respect to the model (C20, tree half). *)

RECURSIVE StepIds(_), BranchIds(_), ActIds(_), CatchIds(_)
ActIds(acts) ==
  IF acts = <<>> THEN <<>>
  ELSE <<Head(acts).id>> \o CatchIds(Head(acts).catches) \o CatchIds(Head(acts).timeouts)
       \o ActIds(Tail(acts))
CatchIds(cs) == IF cs = <<>> THEN <<>> ELSE StepIds(Head(cs).steps) \o CatchIds(Tail(cs))
BranchIds(bs) ==
  IF bs = <<>> THEN <<>> ELSE <<Head(bs).id>> \o StepIds(Head(bs).steps) \o BranchIds(Tail(bs))
StepIds(ss) ==
  IF ss = <<>> THEN <<>>
  ELSE LET s == Head(ss) IN
       <<s.id>> \o (IF s.next = NIL THEN BranchIds(s.branches) ELSE <<>>) \o ActIds(s.acts)
       \o CatchIds(s.catches) \o CatchIds(s.timeouts) \o StepIds(Tail(ss))

(* every declared node id, in declaration order (branches of a step that has *)
(* an explicit `next` are not built: build.rs:60-79)                         *)
DeclaredIds(m) == <<m.id>> \o StepIds(m.steps)

NoDup(s) == \A i, j \in DOMAIN s : s[i] = s[j] => i = j

(* all nodes reachable from `id` through children of every kind and `next`   *)
(* links that were set as sibling links                                      *)
RECURSIVE Reach(_, _, _)
Reach(T, frontier, seen) ==
  IF frontier = {} THEN seen
  ELSE LET id == CHOOSE x \in frontier : TRUE
           n == T.n[id]
           succ == SeqToSet(n.kids) \cup { n.ckids[i].id : i \in DOMAIN n.ckids }
                   \cup { n.tkids[i].id : i \in DOMAIN n.tkids }
                   \cup (IF n.next # NIL /\ T.n[n.next].prev = id THEN {n.next} ELSE {})
           new == succ \ (seen \cup {id})
       IN Reach(T, (frontier \ {id}) \cup new, seen \cup {id})

TreeWellFormed(m) ==
  LET ids == DeclaredIds(m)  T == Flatten(m) IN
  IF ~NoDup(ids) THEN T.err
  ELSE /\ ~T.err
       /\ DOMAIN T.n = SeqToSet(ids)                       \* every declared node, no other
       /\ Reach(T, {m.id}, {}) = SeqToSet(ids)             \* each reachable from the root
       /\ \A id \in DOMAIN T.n :                           \* each filed exactly once
            Cardinality({ p \in DOMAIN T.n :
                 \/ \E i \in DOMAIN T.n[p].kids : T.n[p].kids[i] = id
                 \/ \E i \in DOMAIN T.n[p].ckids : T.n[p].ckids[i].id = id
                 \/ \E i \in DOMAIN T.n[p].tkids : T.n[p].tkids[i].id = id
                 \/ (T.n[p].next = id /\ T.n[id].prev = p) })
            = (IF id = m.id THEN 0 ELSE 1)
=============================================================================
