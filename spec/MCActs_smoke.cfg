SPECIFICATION Spec
CONSTANTS
  Models <- MCModels
  InputSets <- MCInputSets
  Pids = {"p1"}
  TopPids = {"p1"}
  StartAny = FALSE
  MaxActions = 0
  ActionKinds = {"complete"}
  ErrCodes = {"e1"}
  Deviations = {}
  SharedCatchPrev = FALSE
  AdvSet = {}
  MaxTime = 0
  Keep = TRUE
  WithEvict = FALSE
  Grid = {0}
  MaxInst = 2
VIEW View
INVARIANT C01_QuiescentOK
CONSTRAINT InstBound
CHECK_DEADLOCK FALSE
