------------------------------ MODULE MCStore ------------------------------
(***************************************************************************)
(* TLC check of StoreQuery.tla itself over a small space of databases and  *)
(* queries: the canonical answer satisfies AnswerOK, pages partition the   *)
(* ordered matches, an ordered answer is sorted, filters mean what they    *)
(* say (De Morgan between AND of NE and OR of EQ).                         *)
(***************************************************************************)
EXTENDS StoreQuery

Strs == {"a", "b"}
Nums == {2, 9, 10}
CONSTANT NIds
Ids == IF NIds = 2 THEN {"x1", "x2"} ELSE {"x1", "x2", "x3"}
Recs(id) == { [id |-> id, s1 |-> s, s2 |-> "a", n1 |-> n, n2 |-> m] : s \in Strs, n \in Nums, m \in (IF NIds = 2 THEN {2} ELSE {2, 10}) }
Exprs == { [f |-> "s1", op |-> o, s |-> s, n |-> 0] : o \in {"eq", "ne"}, s \in {"a", "zz"} }
         \cup { [f |-> "n1", op |-> o, s |-> "nil", n |-> 9] : o \in {"eq", "ne", "lt", "le", "gt", "ge"} }
Conds == IF NIds = 2
         THEN { [or |-> b, exprs |-> <<e1, e2>>] : b \in BOOLEAN, e1 \in { e \in Exprs : e.f = "s1" },
                                                    e2 \in { e \in Exprs : e.f = "n1" /\ e.op \in {"eq", "lt", "ge"} } }
         ELSE { [or |-> b, exprs |-> <<e1, e2>>] : b \in BOOLEAN, e1 \in Exprs, e2 \in Exprs }
Orders == { <<>>, <<[k |-> "n1", rev |-> FALSE]>>, <<[k |-> "n1", rev |-> TRUE], [k |-> "n2", rev |-> FALSE]>>,
            <<[k |-> "s1", rev |-> FALSE], [k |-> "n1", rev |-> TRUE]>> }

VARIABLES db, q
Init ==
  /\ \E S \in SUBSET Ids : db \in [S -> UNION { Recs(id) : id \in Ids }] /\ \A id \in S : db[id].id = id
  /\ \E c \in Conds, o \in Orders, off \in 0..2, lim \in 1..2 :
       q = [conds |-> <<c>>, order |-> o, offset |-> off, limit |-> lim]
Next == UNCHANGED <<db, q>>
Spec == Init /\ [][Next]_<<db, q>>

Canonical == Window(SortedIds(db, q), q.offset, q.limit)
CanonicalOK == AnswerOK(db, q, Canonical, Cardinality(Matches(db, q)))
Sorted == LET s == SortedIds(db, q) IN
          \A i, j \in DOMAIN s : i < j => ~Before(db[s[j]], db[s[i]], q.order, 1)
PagesPartition ==
  LET s == SortedIds(db, q)
      pages == [p \in 0..Len(s) |-> Window(s, p * q.limit, q.limit)]
  IN \A i \in DOMAIN s : \E p \in 0..Len(s) : \E k \in DOMAIN pages[p] : pages[p][k] = s[i]
WrongCountRejected == ~AnswerOK(db, q, Canonical, Cardinality(Matches(db, q)) + 1)
=============================================================================
