------------------------------ MODULE TraceActs ------------------------------
(***************************************************************************)
(* STRICT trace validation: every step the harness recorded from the real  *)
(* engine must be the corresponding action of Acts.tla, and the projected  *)
(* state, the generated messages and the action result it logged must be   *)
(* the ones the specification computes.                                    *)
(*                                                                         *)
(* A log holds many scenarios; a `model` line starts a new one (fresh      *)
(* engine, fresh specification state).  Every event carries its arguments  *)
(* and the full projected post-state, so the search never branches.        *)
(***************************************************************************)
EXTENDS Acts, Json, IOUtils

Log == ndJsonDeserialize(IOEnv.TRACE)

(* (LET-bound so that the file is parsed once while constants are processed) *)
ModelLines == LET L == Log IN SelectSeq(L, LAMBDA r : r.ev \in {"model", "submodel"})
TraceModels == LET M == ModelLines IN [j \in DOMAIN M |-> M[j].model]
TraceInputSets == LET M == ModelLines IN [j \in DOMAIN M |-> {M[j].inputs}]

VARIABLES l,   \* next line of the log
          sc   \* index of the current scenario (= its model index)

tvars == <<vars, l, sc>>


-----------------------------------------------------------------------------
(* projections *)

(* creation stamps are compared as the order among the tasks that hang off   *)
(* one predecessor, which is all Process::children makes of them             *)
SpecTasks(p) == { [k |-> t, st |-> p.ts[t].st, prev |-> p.ts[t].prev,
                   seq |-> Cardinality({ u \in DOMAIN p.ts : p.ts[u].prev = p.ts[t].prev
                                                            /\ p.ts[u].seq < p.ts[t].seq }),
                   err |-> p.ts[t].err, emitOff |-> p.ts[t].emitOff,
                   catchDone |-> p.ts[t].catchDone,
                   start |-> p.ts[t].start, tdone |-> p.ts[t].tdone,
                   noauto |-> p.ts[t].noauto] : t \in DOMAIN p.ts }
LogTasks(lp) == { [k |-> r.k, st |-> r.st, prev |-> r.prev,
                   seq |-> Cardinality({ u \in ToSet(lp.tasks) : u.prev = r.prev /\ u.seq < r.seq }),
                   err |-> r.err,
                   emitOff |-> r.emitOff, catchDone |-> r.catchDone,
                   start |-> r.start, tdone |-> ToSet(r.tdone),
                   noauto |-> IF "noauto" \in DOMAIN r THEN r.noauto ELSE FALSE] : r \in ToSet(lp.tasks) }

SpecProc(pid, P, Q) ==
  IF P[pid].st = "absent" \/ P[pid].ts = <<>> THEN [cached |-> FALSE]
  ELSE [cached |-> TRUE, ps |-> P[pid].ps, perr |-> P[pid].perr,
        tasks |-> SpecTasks(P[pid]), q |-> { x[2] : x \in { y \in Q : y[1] = pid } }]
LogProc(lp) ==
  IF ~lp.cached \/ lp.tasks = <<>> THEN [cached |-> FALSE]   \* (started, not launched: id taken, nothing else)
  ELSE [cached |-> TRUE, ps |-> lp.ps, perr |-> lp.perr, tasks |-> LogTasks(lp), q |-> ToSet(lp.q)]

SpecJobs(J) == { [kind |-> j.kind, pid |-> j.pid, t |-> IF j.kind = "return" THEN j.t ELSE NoKey] : j \in J }
LogJobs(js) == { [kind |-> j.kind, pid |-> j.pid, t |-> IF "t" \in DOMAIN j THEN j.t ELSE NoKey] : j \in ToSet(js) }

SpecOut(out) == [i \in DOMAIN out |-> [what |-> out[i].what, pid |-> out[i].pid, t |-> out[i].t,
                                        type |-> out[i].type, state |-> out[i].state]]
LogOut(gens) == [i \in DOMAIN gens |-> [what |-> gens[i].what, pid |-> gens[i].pid, t |-> gens[i].t,
                                         type |-> gens[i].type, state |-> gens[i].state]]

LogRes(r) == IF r.res = "ok" THEN "ok" ELSE "err"

(* the comparison; a mismatch is printed (the search is deterministic, so     *)
(* there is exactly one candidate successor per line)                         *)
Same(what, got, want) ==
  IF got = want THEN TRUE
  ELSE PrintT(<<"MISMATCH", what, "line", l, "n", IF "n" \in DOMAIN Log[l] THEN Log[l].n ELSE 0, "spec", got, "impl", want>>) /\ FALSE

(* a process that is not in the cache (evicted, or removed after its terminal *)
(* event) has no live image to compare; the specification's is unchanged       *)
PostOK(r) ==
  /\ \A pid \in DOMAIN r.post.procs :
        \/ ~r.post.procs[pid].cached /\ procs'[pid].st # "absent" /\ procs'[pid].ts # <<>>
        \/ Same(<<"proc", pid>>, SpecProc(pid, procs', queue'), LogProc(r.post.procs[pid]))
  /\ Same("jobs", SpecJobs(spawn'), LogJobs(r.post.jobs))
  /\ Same("clock", now', r.post.now)
  /\ Same("messages", SpecOut(lastOut'), LogOut(r.gens))

-----------------------------------------------------------------------------
(* the engine's node tree must be the one Tree.tla computes *)

SpecTree(T) ==
  { [id |-> id, kind |-> T.n[id].kind, level |-> T.n[id].level, parent |-> T.n[id].parent,
     prev |-> T.n[id].prev, next |-> T.n[id].next, kids |-> T.n[id].kids,
     ckids |-> T.n[id].ckids, tkids |-> T.n[id].tkids, else |-> T.n[id].else,
     needs |-> T.n[id].needs, uses |-> T.n[id].uses, hascond |-> T.n[id].cond.op # "none",
     catches |-> T.n[id].catches,
     timeouts |-> [i \in DOMAIN T.n[id].timeouts |-> [on |-> T.n[id].timeouts[i].on]]]
    : id \in DOMAIN T.n }
LogTree(nodes) ==
  { [id |-> r.id, kind |-> r.kind, level |-> r.level, parent |-> r.parent, prev |-> r.prev,
     next |-> r.next, kids |-> r.kids, ckids |-> r.ckids, tkids |-> r.tkids, else |-> r.else,
     needs |-> ToSet(r.needs), uses |-> r.uses, hascond |-> r.hascond, catches |-> r.catches,
     timeouts |-> r.timeouts] : r \in ToSet(nodes) }

TreeOK(j, r) ==
  LET T == Trees[j] IN
  IF T.err THEN Same("tree-rejected", TRUE, ~r.tree.ok)
  ELSE /\ Same("tree-accepted", TRUE, r.tree.ok)
       /\ Same("tree", SpecTree(T), LogTree(r.tree.nodes))

-----------------------------------------------------------------------------

IsStep(a) == l <= Len(Log) /\ Log[l].ev = "step" /\ Log[l].a = a /\ l' = l + 1 /\ sc' = sc

TraceModel ==
  /\ l <= Len(Log) /\ Log[l].ev = "model"
  /\ l' = l + 1 /\ sc' = sc + 1
  /\ TreeOK(sc + 1, Log[l])
  /\ procs' = [p \in Pids |-> AbsentProc]
  /\ queue' = {} /\ spawn' = {}
  /\ budget' = MaxActions
  /\ lastOut' = <<>> /\ lastRes' = "-" /\ lastAct' = NoAct
  /\ now' = 0

TraceSub ==      \* another model of the bundle (deployed next to the main one, which follows)
  /\ l <= Len(Log) /\ Log[l].ev = "submodel"
  /\ l' = l + 1 /\ sc' = sc + 1
  /\ TreeOK(sc + 1, Log[l])
  /\ UNCHANGED vars

TraceSkip ==     \* lines that carry no action
  /\ l <= Len(Log) /\ Log[l].ev \in {"end", "note"}
  /\ l' = l + 1 /\ sc' = sc
  /\ UNCHANGED vars

TraceStartCall ==
  /\ IsStep("StartCall")
  /\ LET r == Log[l]
         mi == sc - (IF "mo" \in DOMAIN r THEN r.mo ELSE 0) IN
     /\ StartCall(r.pid, mi, r.inputs) \/ StartDup(r.pid, mi, r.inputs)
     /\ Same("result", lastRes', LogRes(r))
     /\ PostOK(r)

TraceLaunch ==
  /\ IsStep("Launch")
  /\ LET r == Log[l] IN
     /\ Launch(r.pid)
     /\ PostOK(r)

TraceExec ==
  /\ IsStep("Exec")
  /\ LET r == Log[l] IN
     /\ DoExec(r.pid, r.t)
     /\ PostOK(r)

TraceAct ==
  /\ IsStep("Act")
  /\ LET r == Log[l] IN
     /\ \/ Act(r.pid, r.t, r.kind, [ecode |-> r.opts.ecode, to |-> r.opts.to])
        \/ ActGone(r.pid, r.t, r.kind, [ecode |-> r.opts.ecode, to |-> r.opts.to])
     /\ Same("result", lastRes', LogRes(r))
     /\ PostOK(r)

TraceReturn ==
  /\ IsStep("Return")
  /\ LET r == Log[l] IN
     /\ \E j \in spawn : j.kind = "return" /\ j.pid = r.pid /\ j.t = r.t /\ Return(j)
     /\ Same("return kind", lastAct'.kind, r.kind)
     /\ Same("result", lastRes', LogRes(r))
     /\ PostOK(r)

TraceEvict ==
  /\ IsStep("Evict")
  /\ Evict(Log[l].pid)
  /\ PostOK(Log[l])

TraceTick ==
  /\ IsStep("Tick")
  /\ Tick
  /\ PostOK(Log[l])

TraceAdvance ==
  /\ IsStep("Advance")
  /\ LET r == Log[l] IN
     /\ now' = now + r.d
     /\ lastOut' = <<>> /\ lastRes' = "-"
     /\ lastAct' = [StepLabel("Advance", NIL, <<NIL, 0>>) EXCEPT !.opt = [d |-> r.d]]
     /\ UNCHANGED <<procs, queue, spawn, budget>>
     /\ PostOK(r)

TraceInit ==
  /\ Init
  /\ l = 1 /\ sc = 0

TraceNext == TraceModel \/ TraceSub \/ TraceSkip \/ TraceReturn \/ TraceStartCall \/ TraceLaunch \/ TraceExec \/ TraceAct
             \/ TraceTick \/ TraceAdvance \/ TraceEvict

TraceSpec == TraceInit /\ [][TraceNext]_tvars

(* acceptance: one state per consumed line plus the initial state *)
TraceAccepted ==
  LET d == TLCGet("stats").diameter IN
  IF d - 1 = Len(Log) THEN PrintT(<<"ACCEPTED", Len(Log)>>)
  ELSE PrintT(<<"REJECTED", "matched", d - 1, "of", Len(Log), "first unmatched line", d,
                IF d <= Len(Log) /\ Log[d].ev = "step"
                THEN <<Log[d].a, "n", Log[d].n>> ELSE <<"-">> >>) /\ FALSE
=============================================================================
