------------------------------ MODULE MCScript ------------------------------
(* TLC on Script.tla: (1) the template laws over all pairs of short segment  *)
(* sequences; (2) the enumeration of conformance cases, printed one JSON     *)
(* line each ("CASE|..."), that the harness runs through the engine.         *)
EXTENDS Script, Json, FiniteSets
CONSTANTS LawLen, CaseLen
Seqs(n) == UNION { [1..k -> Symbols] : k \in 0..n }

VARIABLES x, y
LawInit == x \in Seqs(LawLen) /\ y \in Seqs(LawLen)
LawSpec == LawInit /\ [][UNCHANGED <<x, y>>]_<<x, y>>
Laws == TemplateLaws(x, y)
(* the value half: every route hands the value over unchanged *)
ValueLaws == \A r \in Routes : \A v \in {"1", "3000000000", "[1.5,null]"} : Through(r, v) = v

Cases == { [kind |-> "env", text |-> EnvText] }
         \cup { [kind |-> "tpl", segs |-> s, text |-> ParamText(s)] : s \in Seqs(CaseLen) }
         \cup { [kind |-> "val", route |-> r, shape |-> d] : r \in Routes, d \in D2 }
CaseInit == x \in Cases /\ y = 0
CaseSpec == CaseInit /\ [][UNCHANGED <<x, y>>]_<<x, y>>
Emit == PrintT("CASE|" \o ToJson(x))
=============================================================================
