SPECIFICATION SSpec
POSTCONDITION SDone
CHECK_DEADLOCK FALSE
