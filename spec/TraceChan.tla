----------------------------- MODULE TraceChan -----------------------------
(***************************************************************************)
(* C18 conformance: recorded register / close / unsub / emit sequences of  *)
(* the harness's chan driver replayed on Channels.tla: every message must  *)
(* have reached exactly Receivers(chans, m), each once.                    *)
(*   CHAN|VIOLATION|<what>|scenario|line                                   *)
(***************************************************************************)
EXTENDS Channels, Json, IOUtils, FiniteSets

Log == ndJsonDeserialize(IOEnv.TRACE)
VARIABLES chans, l, sc
cvars == <<chans, l, sc>>
ToSet(s) == { s[i] : i \in DOMAIN s }
Say(what) == PrintT("CHAN|VIOLATION|" \o what \o "|" \o ToString(sc) \o "|" \o ToString(l))
Must(what, ok) == IF ok THEN TRUE ELSE Say(what)

CModel == /\ l <= Len(Log) /\ Log[l].ev = "chanmodel"
          /\ l' = l + 1 /\ sc' = sc + 1 /\ chans' = <<>>
CStep ==
  /\ l <= Len(Log) /\ Log[l].ev = "chan"
  /\ l' = l + 1 /\ sc' = sc
  /\ LET r == Log[l] IN
     CASE r.op = "Register" -> chans' = Register(chans, r.id, r.opts)
       [] r.op \in {"Close", "Unsub"} -> chans' = Remove(chans, r.id)
       [] r.op = "Emit" ->
            /\ chans' = chans
            /\ Must("a message reached other channels than its filters select (type/state/tag/key/uses)",
                    ToSet(r.got) = Receivers(chans, r.msg))
            /\ Must("a channel was invoked more than once for one message", Len(r.got) = Cardinality(ToSet(r.got)))
CInit == chans = <<>> /\ l = 1 /\ sc = 0
CNext == CModel \/ CStep
CSpec == CInit /\ [][CNext]_cvars
CDone ==
  LET d == TLCGet("stats").diameter IN
  IF d - 1 = Len(Log) THEN PrintT("CHAN|DONE|" \o ToString(Len(Log)))
  ELSE PrintT("CHAN|STUCK|" \o ToString(d)) /\ FALSE
=============================================================================
