------------------------------- MODULE MCData -------------------------------
(* TLC on Data.tla: the laws of the reference environment model hold for      *)
(* every program of the family and both start values.                         *)
EXTENDS Data, Json, IOUtils
Raw == ndJsonDeserialize(IOEnv.MODELS)
Progs == LET R == Raw IN [i \in DOMAIN R |-> R[i].dprog]
VARIABLES pi, a0
Init0 == pi \in DOMAIN Progs /\ a0 \in {1, 100}
Spec == Init0 /\ [][UNCHANGED <<pi, a0>>]_<<pi, a0>>
DataLaws == ReadYourWrites(Progs[pi], a0) /\ Confined(Progs[pi], a0)
(* the two start values never mix: what the process started with 100 ends with differs from *)
(* the other one's exactly where `a` was never overwritten by a constant                     *)
NoCrossing == LET e1 == Expected(Progs[pi], 1).env  e2 == Expected(Progs[pi], 100).env IN
              e1["w"]["o"] = e2["w"]["o"] /\ e1["s1"]["b"] - e2["s1"]["b"] \in {0, -99} /\ e1["s2"]["c"] - e2["s2"]["c"] \in {0, -99}
=============================================================================
