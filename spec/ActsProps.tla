------------------------------ MODULE ActsProps ------------------------------
(***************************************************************************)
(* The listed properties as formulas over the state of Acts.tla.           *)
(***************************************************************************)
EXTENDS Acts

Live(pid) == procs[pid].st # "absent" /\ procs[pid].ts # <<>>
Quiescent == queue = {} /\ spawn = {}

OpenIrq(pid) == \E t \in DOMAIN procs[pid].ts :
                  /\ procs[pid].ts[t].st = "interrupted"
                  /\ Trees[procs[pid].mi].n[t[1]].kind = "act"
Terminated(pid) == procs[pid].ev.term >= 1

(* C01 — whenever nothing is in flight, every started process has delivered  *)
(* its terminal event or waits on an open interrupt act.                     *)
C01_QuiescentOK ==
  Quiescent => \A pid \in Pids : Live(pid) => Terminated(pid) \/ OpenIrq(pid)
=============================================================================
