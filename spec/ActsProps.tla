------------------------------ MODULE ActsProps ------------------------------
(***************************************************************************)
(* The listed properties as formulas over the state of Acts.tla.  The same *)
(* operators are evaluated by TLC on the specification (every schedule,    *)
(* every model of the family) and, through Observe.tla, on the states the  *)
(* implementation was observed in.                                         *)
(*                                                                         *)
(* Every property is a set V_<name> of violation records                   *)
(*     [p |-> name, pid |-> process, t |-> task, kf |-> known findings]    *)
(* `kf` is the set of known-finding classifiers (Findings below) that      *)
(* explain this very violation; the raw property is V = {}, the property   *)
(* modulo known findings is "every v in V has v.kf # {}".                  *)
(***************************************************************************)
EXTENDS Acts, Ref

Started(pid) == procs[pid].st # "absent"
Live(pid) == Started(pid) /\ procs[pid].ts # <<>>
Quiescent == queue = {} /\ spawn = {}
LivePids == { pid \in Pids : Live(pid) }

P(pid) == procs[pid]                       \* also serves as the S record of Acts' operators
ND(pid, t) == Trees[procs[pid].mi].n[t[1]]
TR(pid) == Trees[procs[pid].mi]
TaskKeys(pid) == DOMAIN procs[pid].ts
TS(pid, t) == procs[pid].ts[t]

Desc(S, t) == { u \in DOMAIN S.ts : t \in AncSet(S, u) }

(* tasks reachable from t through prev links (t's whole continuation) *)
RECURSIVE After(_, _, _)
After(S, frontier, seen) ==
  IF frontier = {} THEN seen
  ELSE LET nxt == { u \in DOMAIN S.ts : S.ts[u].prev \in frontier } \ seen
       IN After(S, nxt, seen \cup nxt)
Continuation(S, t) == After(S, {t}, {t})

(* tree ancestors of a node *)
RECURSIVE NodeAnc(_, _)
NodeAnc(T, id) == LET p == NodeParent(T, id) IN IF p = NIL THEN {} ELSE {p} \cup NodeAnc(T, p)

IsIrq(pid, t) == ND(pid, t).kind = "act" /\ ND(pid, t).uses = "irq"
OpenIrq(pid) == \E t \in TaskKeys(pid) : TS(pid, t).st = "interrupted" /\ ND(pid, t).kind = "act"
Terminated(pid) == procs[pid].ev.term >= 1

(* sub-workflow calls: the child processes of a calling act, open calls *)
IsSub(pid, t) == ND(pid, t).kind = "act" /\ ND(pid, t).uses = "sub"
ChildrenOf(pid, t) == { c \in Pids : Started(c) /\ ParentOfProc(procs[c]) = [pid |-> pid, t |-> t] }
ChildrenOfProc(pid) == { c \in Pids : Started(c) /\ ParentOfProc(procs[c]).pid = pid }
ProcEnded(c) == procs[c].ts # <<>> /\ IsDone(procs[c].ps)
WaitsOnChild(pid) ==
  \E t \in TaskKeys(pid) : /\ IsSub(pid, t) /\ TS(pid, t).st = "running"
                            /\ \E c \in ChildrenOf(pid, t) : ~ProcEnded(c)

V(name, pid, t, kfs) == [p |-> name, pid |-> pid, t |-> t, kf |-> kfs]
Holds(VS) == VS = {}
HoldsX(VS) == \A v \in VS : v.kf # {}

-----------------------------------------------------------------------------
(* Known findings: classifiers specific to the failing input / call site.   *)
(* Each is listed in /verif/known_findings.json under the same id.          *)

(* KF_back_enclosing: `back` whose target step is an ENCLOSING (still       *)
(* running) step of the act: the re-created step is queued under the        *)
(* target's predecessor while the enclosing step itself runs on to its end; *)
(* the flow finishes past the re-created step (task.rs:433-459,             *)
(* context.rs:275-325).  Explains open tasks in the continuation of such a  *)
(* re-created step.                                                         *)
RedoOfEnclosing(pid, u) ==
  /\ TS(pid, u).redo
  /\ \E a \in TaskKeys(pid) :
       /\ TS(pid, a).st = "backed" /\ ND(pid, a).kind = "act"
       /\ u[1] \in NodeAnc(TR(pid), a[1])
KF_back_enclosing(pid, t) ==
  \E u \in TaskKeys(pid) :
    /\ RedoOfEnclosing(pid, u)
    /\ \/ t \in Continuation(P(pid), u)               \* what the re-created step started
       \/ \E o \in TaskKeys(pid) :                     \* what the old instance left behind
            o[1] = u[1] /\ o # u /\ (t \in Continuation(P(pid), o) \/ t \in Desc(P(pid), o))

KF_back_enclosing_p(pid) == \E u \in TaskKeys(pid) : RedoOfEnclosing(pid, u)
(* ... and, once the flow has finished past the re-created step, what the    *)
(* re-created step does to its (finished) ancestors                          *)
KF_back_enclosing_anc(pid, t) ==
  \E u \in TaskKeys(pid) : RedoOfEnclosing(pid, u) /\ t \in AncSet(P(pid), u)

(* KF_back_leaves_siblings: `back` out of a step with several branches marks  *)
(* the running tasks on its own path completed but leaves the tasks of the    *)
(* other branches open beneath the step it has just marked completed          *)
(* (context.rs:287-325 closes the act's siblings and the path only).          *)
KF_back_leaves_siblings(pid, u) ==
  \E s \in AncSet(P(pid), u) :
    /\ ND(pid, s).kind = "step" /\ TS(pid, s).st = "completed"
    /\ \E a \in Desc(P(pid), s) : ND(pid, a).kind = "act" /\ TS(pid, a).st = "backed"

(* KF_action_on_running_act: a terminal client action is admitted on an act  *)
(* that is RUNNING, i.e. revived by its own catch (or, for generator acts,   *)
(* waiting for the acts it generated), and closes it over the tasks that    *)
(* are still open beneath it (task.rs:423-431: only is_completed is         *)
(* refused).  Explains open tasks beneath an act closed by a client action. *)
KF_action_on_running_act(pid, u) ==
  \E a \in AncSet(P(pid), u) :
     /\ ND(pid, a).kind = "act"
     /\ \/ TS(pid, a).okterm >= 1
        \* (a client error admitted on a waiting sub-workflow call and taken by its catch: the
        \* child's return then closes the call over the catch's steps)
        \/ (ND(pid, a).uses = "sub" /\ TS(pid, a).retn >= 1 /\ TS(pid, a).caught # NIL)

(* KF_alive_after_error: an error that ends the process (error event        *)
(* delivered) does not stop the other branches of a multi-branch step.  They *)
(* run on and stay actionable: a later error climbs the failed ancestors     *)
(* again (second error event), a later abort rewrites them to aborted and    *)
(* delivers a complete event after the error event (context.rs:327-441).     *)
KF_alive_after_error(pid) == procs[pid].ev.first = "error" /\ procs[pid].ev.start = 1

(* KF_step_timeout_review: a STEP with a timeout rule: when the rule has     *)
(* fired and its steps finish, they review the step, and the review counts   *)
(* only the tasks that hang directly off the step (its first act, its        *)
(* branches, the timeout steps) - not the acts chained behind the first act. *)
(* The step completes and starts its successor while a later act of its own  *)
(* list is still open or not even started (step.rs:97-135).                  *)
FiredStepRule(pid, s) ==
  /\ ND(pid, s).kind = "step"
  /\ \E i \in DOMAIN ND(pid, s).timeouts :
       LET inst == { u \in TaskKeys(pid) : TS(pid, u).prev = s
                       /\ \E c \in DOMAIN ND(pid, s).tkids :
                            ND(pid, s).tkids[c].on = ND(pid, s).timeouts[i].on
                            /\ ND(pid, s).tkids[c].id = u[1] }
       IN inst # {} /\ \A u \in inst : IsDone(TS(pid, u).st)
KF_step_timeout_review(pid, t) ==
  \E s \in AncSet(P(pid), t) : FiredStepRule(pid, s)
KF_step_timeout_review_p(pid) == \E s \in TaskKeys(pid) : FiredStepRule(pid, s)

(* KF_nested_review_dup: a step whose review (or next) resumes a pending    *)
(* else/needs branch that has no steps: the branch finishes inline, reviews *)
(* the step (which completes and reports), and the outer review, seeing the *)
(* state changed, reports the step's ending a second time                   *)
(* (task.rs:916-948, step.rs:103-116).                                      *)
KF_nested_review_dup(pid, t) ==
  /\ ND(pid, t).kind = "step"
  /\ \E b \in KidSet(P(pid), t) :
       /\ ND(pid, b).kind = "branch" /\ ND(pid, b).kids = <<>>
       /\ (ND(pid, b).else \/ ND(pid, b).needs # {})
       /\ TS(pid, b).st = "completed"

-----------------------------------------------------------------------------
(* C01 — whenever nothing is in flight, every started process has delivered  *)
(* its terminal event or waits on an open interrupt act.                     *)
V_C01_QuiescentOK ==
  IF ~Quiescent THEN {}
  ELSE { V("C01_QuiescentOK", pid, NoKey,
             {k \in {"KF_step_timeout_review"} : KF_step_timeout_review_p(pid)}
             \cup {k \in {"KF_back_enclosing"} : KF_back_enclosing_p(pid)}) :
           pid \in { q \in LivePids : ~Terminated(q) /\ ~OpenIrq(q) /\ ~WaitsOnChild(q) } }

(* C02 — only legal transitions; every write is judged where it happens      *)
(* (Acts!SetStVia / the observed write events) and collected in `viol`.      *)
V_C02_Lifecycle ==
  UNION { { V("C02_Lifecycle", pid, w.t,
              {k \in {"KF_alive_after_error"} :
                 KF_alive_after_error(pid) /\ w.old = "error" /\ ND(pid, w.t).kind # "act"}
              \cup {k \in {"KF_back_enclosing"} : KF_back_enclosing_anc(pid, w.t)}
              \cup {k \in {"KF_step_timeout_review"} :
                      w.t \in TaskKeys(pid) /\ FiredStepRule(pid, w.t) /\ w.old = "completed"})
            : w \in procs[pid].viol } :
          pid \in { q \in Pids : Started(q) } }

-----------------------------------------------------------------------------
(* C03 *)
V_C03_ParentDone ==
  UNION { UNION { { V("C03_ParentDone", pid, u,
                      {k \in {"KF_back_enclosing"} : KF_back_enclosing(pid, u)}
                      \cup {k \in {"KF_action_on_running_act"} : KF_action_on_running_act(pid, u)}
                      \cup {k \in {"KF_step_timeout_review"} : KF_step_timeout_review(pid, u)}
                      \cup {k \in {"KF_back_leaves_siblings"} : KF_back_leaves_siblings(pid, u)})
                    : u \in { x \in Desc(P(pid), t) : ~IsDone(TS(pid, x).st) } }
                  : t \in { x \in TaskKeys(pid) : TS(pid, x).st = "completed" } }
          : pid \in LivePids }

V_C03_ProcMirrorsRoot ==
  { V("C03_ProcMirrorsRoot", pid, NoKey, {}) :
      pid \in { q \in LivePids :
                 LET root == RootKey(P(q)) IN
                 /\ root \in TaskKeys(q)
                 /\ (IsDone(TS(q, root).st) \/ IsDone(P(q).ps))
                 /\ P(q).ps # TS(q, root).st } }

V_C03_Events ==
  { V("C03_Events", pid, NoKey, {k \in {"KF_alive_after_error"} : KF_alive_after_error(pid)}
                                     \cup {k \in {"KF_back_enclosing"} : KF_back_enclosing_p(pid)}) :
      pid \in { q \in Pids :
                 /\ Started(q)
                 /\ LET ev == procs[q].ev IN
                    ~ ( /\ ev.start <= 1 /\ ev.term <= 1
                        /\ (ev.term >= 1 => ev.start >= 1)
                        /\ Cardinality(ev.kinds) <= 1 ) } }

V_C03_TerminalEvent ==
  { V("C03_TerminalEvent", pid, NoKey, {}) :
      pid \in { q \in LivePids : IsDone(P(q).ps) /\ procs[q].ev.term = 0 } }

(* a non-error ending leaves nothing open (a queued task in state none is    *)
(* open: it will be executed and open new tasks)                             *)
V_C03_CleanEnding ==
  UNION { { V("C03_CleanEnding", pid, t,
              {k \in {"KF_back_enclosing"} : KF_back_enclosing(pid, t)}
              \cup {k \in {"KF_action_on_running_act"} : KF_action_on_running_act(pid, t)}
              \cup {k \in {"KF_step_timeout_review"} : KF_step_timeout_review_p(pid)}
              \cup {k \in {"KF_back_leaves_siblings"} : KF_back_leaves_siblings(pid, t)})
            : t \in { x \in TaskKeys(pid) : ~IsDone(TS(pid, x).st) } }
          : pid \in { q \in LivePids : procs[q].ev.kinds = {"complete"} } }

-----------------------------------------------------------------------------
(* C04 — for runs in which the client only ever completes interrupts: the set *)
(* of nodes that ran and their final states are those of the reference        *)
(* interpretation (Ref.tla), whatever the schedule; and the order is right.   *)
Pure(pid) == Live(pid) /\ procs[pid].pure /\ PlainModel(Models[procs[pid].mi])
PureL(pid) == Live(pid) /\ procs[pid].pure /\ PlainModelL(Models[procs[pid].mi])

V_C04_Outcome ==
  IF ~Quiescent THEN {}
  ELSE { V("C04_Outcome", pid, NoKey, {}) :
           pid \in { q \in Pids :
                      /\ Pure(q) /\ Terminated(q)
                      /\ \/ { <<t[1], TS(q, t).st>> : t \in TaskKeys(q) }
                               # RefOutcome(Models[procs[q].mi], procs[q].inp)
                         \/ \E t \in TaskKeys(q) : t[2] # 1 } }

(* a step / act starts only after its predecessor in the list is terminal;    *)
(* a needs-branch runs only after a needed sibling finished; the else branch  *)
(* runs only if every sibling was skipped                                     *)
V_C04_Order ==
  UNION { { V("C04_Order", pid, t, {}) :
              t \in { x \in TaskKeys(pid) :
                       \/ LET p == TS(pid, x).prev IN
                          /\ p \in TaskKeys(pid) /\ ND(pid, p).level = ND(pid, x).level
                          /\ ~IsDone(TS(pid, p).st)
                       \/ /\ ND(pid, x).kind = "branch" /\ TS(pid, x).st \in {"running", "completed"}
                          /\ LET sib == SelectSeq(Siblings(P(pid), x),
                                                  LAMBDA u : ND(pid, u).kind = "branch") IN
                             \/ /\ ND(pid, x).needs # {}
                                /\ ~\E i \in DOMAIN sib : sib[i][1] \in ND(pid, x).needs
                                                           /\ IsDone(TS(pid, sib[i]).st)
                             \/ /\ ND(pid, x).needs = {} /\ ND(pid, x).else
                                /\ \E i \in DOMAIN sib : TS(pid, sib[i]).st # "skipped" } }
          : pid \in { q \in Pids : PureL(q) } }

-----------------------------------------------------------------------------
(* C05 *)
ActLabel == lastAct.a = "Act"

V_C05_Admission ==
  IF ActLabel /\ lastRes = "ok"
     /\ ~ ( /\ lastAct.st \notin {"absent"}
            /\ (lastAct.kind = "push" => ND(lastAct.pid, lastAct.t).kind = "step")
            /\ (lastAct.kind # "push" => ND(lastAct.pid, lastAct.t).kind = "act") )
  THEN { V("C05_Admission", lastAct.pid, lastAct.t, {}) } ELSE {}

V_C05_TerminalRejected ==
  IF ActLabel /\ lastAct.kind \in TerminalKinds /\ IsDone(lastAct.st) /\ lastRes # "err"
  THEN { V("C05_TerminalRejected", lastAct.pid, lastAct.t, {}) } ELSE {}

V_C05_AtMostOnce ==
  UNION { { V("C05_AtMostOnce", pid, t, {}) : t \in { x \in TaskKeys(pid) : TS(pid, x).okterm > 1 } }
          : pid \in LivePids }

(* successors are created exactly once: no two tasks of one node hang off    *)
(* the same predecessor, unless back/cancel re-created the step              *)
V_C05_NoDupSuccessor ==
  UNION { { V("C05_NoDupSuccessor", pid, u,
              \* (a step re-created by `back` to an enclosing step runs beside the old instance:
              \* both reach the end of the step and start its successor)
              {k \in {"KF_back_enclosing"} : KF_back_enclosing_p(pid)}) :
              u \in { x \in TaskKeys(pid) :
                       \E v \in TaskKeys(pid) :
                         /\ x # v /\ x[1] = v[1] /\ TS(pid, x).prev = TS(pid, v).prev
                         /\ ~TS(pid, x).redo /\ ~TS(pid, v).redo } }
          : pid \in LivePids }

(* a rejected complete/submit/skip/remove/abort/error/back changes nothing   *)
C05_RejectedIsNoopStep ==
  (lastRes' = "err" /\ lastAct'.a = "Act" /\ lastAct'.kind \in TerminalKinds)
     => (UNCHANGED <<procs, queue, spawn>> /\ lastOut' = <<>>)
C05_RejectedIsNoop == [][C05_RejectedIsNoopStep]_vars

(* only a LIVE process takes actions: without keep_processes a process that has delivered its *)
(* terminal event is gone, whatever was still open in it                                      *)
C05_LiveProcessStep ==
  (lastAct'.a = "Act" /\ lastRes' = "ok" /\ ~Keep) =>
     (procs[lastAct'.pid].st # "absent" /\ procs[lastAct'.pid].ev.term = 0)
C05_LiveProcess == [][C05_LiveProcessStep]_vars

-----------------------------------------------------------------------------
(* C06 *)
(* an error that no catch took has climbed: the parent carries the same code, *)
(* the root's error is the process's error                                    *)
V_C06_Propagates ==
  IF ~Quiescent THEN {}
  ELSE UNION { { V("C06_Propagates", pid, t,
                     \* (the process has failed but another branch runs on: a second, different
                     \* error climbs ancestors that already carry the first one)
                     {k \in {"KF_alive_after_error"} : KF_alive_after_error(pid)}) :
                   t \in { x \in TaskKeys(pid) :
                            /\ TS(pid, x).st = "error"
                            /\ LET p == ParentOf(P(pid), x)  e == TS(pid, x).err IN
                               ~ IF p = NoKey THEN P(pid).ps = "error" /\ P(pid).perr = e
                                 ELSE \/ TS(pid, p).st = "error" /\ TS(pid, p).err = e
                                      \/ TS(pid, p).catchDone /\ TS(pid, p).caught = e } }
               : pid \in LivePids }

(* a task that declares a catch for its error and has not used its catch yet *)
(* does not stay failed: the catch takes the error                           *)
V_C06_Taken ==
  UNION { { V("C06_Taken", pid, t, {}) :
              t \in { x \in TaskKeys(pid) :
                       /\ TS(pid, x).st = "error" /\ ~TS(pid, x).catchDone /\ TS(pid, x).err # NIL
                       /\ LET cs == ND(pid, x).catches IN
                          \E i \in DOMAIN cs : cs[i] = NIL \/ cs[i] = TS(pid, x).err } }
          : pid \in LivePids }

(* a catch takes only an error it matches, and it is the first matching one  *)
V_C06_CatchMatches ==
  UNION { { V("C06_CatchMatches", pid, t, {}) :
              t \in { x \in TaskKeys(pid) :
                       /\ TS(pid, x).catchDone
                       /\ LET cs == ND(pid, x).catches  i == TS(pid, x).caughtBy
                              code == TS(pid, x).caught IN
                          ~ ( /\ i \in DOMAIN cs
                              /\ (cs[i] = NIL \/ cs[i] = code)
                              /\ \A j \in 1..(i - 1) : ~(cs[j] = NIL \/ cs[j] = code) ) } }
          : pid \in LivePids }

(* the steps of the catch that took the error are instantiated exactly once,  *)
(* those of the other catches never                                           *)
V_C06_CatchStepsOnce ==
  UNION { { V("C06_CatchStepsOnce", pid, t, {}) :
              t \in { x \in TaskKeys(pid) :
                       LET n == ND(pid, x)
                           \* (a step re-created by back/cancel is not another run of the catch)
                           inst(id) == { u \in TaskKeys(pid) : u[1] = id /\ TS(pid, u).prev = x
                                                                 /\ ~TS(pid, u).redo } IN
                       \E c \in DOMAIN n.ckids :
                         IF TS(pid, x).catchDone /\ TS(pid, x).caughtBy \in DOMAIN n.catches
                            /\ n.catches[TS(pid, x).caughtBy] = n.ckids[c].on
                         THEN Cardinality(inst(n.ckids[c].id)) # 1
                         ELSE Cardinality(inst(n.ckids[c].id)) # 0 } }
          : pid \in LivePids }

(* once the catch steps are finished the catching task is no longer running   *)
V_C06_CaughtCompletes ==
  IF ~Quiescent THEN {}
  ELSE UNION { { V("C06_CaughtCompletes", pid, t,
                     \* (KF_back_enclosing, second half: a `back` inside the catch steps leaves the
                     \* backed old instance under the catching task, which counts completed
                     \* children only and never finishes)
                     {k \in {"KF_back_enclosing"} :
                        \E u \in Desc(P(pid), t) : TS(pid, u).st = "backed" /\ TS(pid, u).prev = t}) :
                   t \in { x \in TaskKeys(pid) :
                            /\ TS(pid, x).catchDone /\ TS(pid, x).st = "running"
                            /\ \A u \in Desc(P(pid), x) : IsDone(TS(pid, u).st) } }
               : pid \in LivePids }

-----------------------------------------------------------------------------
(* C08 (generation side) *)
Emits(pid, t) == ND(pid, t).kind \in {"workflow", "step"} \/ IsIrq(pid, t)

V_C08_AtMostOne ==
  UNION { { V("C08_AtMostOne", pid, t,
              {k \in {"KF_nested_review_dup"} :
                 KF_nested_review_dup(pid, t) /\ TS(pid, t).mcre <= 1}
              \cup {k \in {"KF_step_timeout_review"} : FiredStepRule(pid, t) /\ TS(pid, t).mcre <= 1}
              \* (the flow has finished past a step re-created by `back` to an enclosing step; what
              \* the re-created step then does ends its finished ancestors a second time)
              \cup {k \in {"KF_back_enclosing"} : KF_back_enclosing_anc(pid, t) /\ TS(pid, t).mcre <= 1}
              \* (the process has failed but another branch runs on: its later error or abort ends
              \* the failed ancestors a second time)
              \cup {k \in {"KF_alive_after_error"} :
                      KF_alive_after_error(pid) /\ TS(pid, t).mcre <= 1 /\ ND(pid, t).kind # "act"})
            : t \in { x \in TaskKeys(pid) : TS(pid, x).mcre > 1 \/ TS(pid, x).mterm > 1 } }
          : pid \in LivePids }

V_C08_CreatedFirst ==      \* a task that is open has been announced
  UNION { { V("C08_CreatedFirst", pid, t, {}) :
              t \in { x \in TaskKeys(pid) :
                       /\ Emits(pid, x) /\ TS(pid, x).st \in (Created \cup {"running"})
                       /\ TS(pid, x).mcre = 0 } }
          : pid \in LivePids }

V_C08_TerminalReported ==
  UNION { { V("C08_TerminalReported", pid, t, {}) :
              t \in { x \in TaskKeys(pid) :
                       Emits(pid, x) /\ IsDone(TS(pid, x).st) /\ TS(pid, x).mterm = 0 } }
          : pid \in LivePids }

V_C08_BranchSilent ==
  UNION { { V("C08_BranchSilent", pid, t, {}) :
              t \in { x \in TaskKeys(pid) :
                       ND(pid, x).kind = "branch" /\ (TS(pid, x).mcre > 0 \/ TS(pid, x).mterm > 0) } }
          : pid \in LivePids }

V_C08_MsgAct ==
  UNION { { V("C08_MsgAct", pid, t, {}) :
              t \in { x \in TaskKeys(pid) :
                       /\ ND(pid, x).kind = "act" /\ ND(pid, x).uses = "msg"
                       /\ ~ ( /\ TS(pid, x).mcre = 0
                              /\ (TS(pid, x).st = "completed" => TS(pid, x).mterm = 1) ) } }
          : pid \in LivePids }

V_C08_ParentFirst ==
  UNION { { V("C08_ParentFirst", pid, t, {}) :
              t \in { x \in TaskKeys(pid) :
                       /\ TS(pid, x).mcre >= 1
                       /\ LET p == ParentOf(P(pid), x) IN
                          /\ p # NoKey /\ ND(pid, p).kind \in {"workflow", "step"}
                          /\ TS(pid, p).mcre = 0 } }
          : pid \in LivePids }

-----------------------------------------------------------------------------
(* C19 — timeout rules.  A rule's steps are the tasks of its step nodes that  *)
(* hang off the timed task.                                                   *)
RuleInst(pid, t, on) ==            \* (a step re-created by back/cancel is not a firing)
  { u \in TaskKeys(pid) : TS(pid, u).prev = t /\ ~TS(pid, u).redo
                           /\ \E c \in DOMAIN ND(pid, t).tkids :
                                ND(pid, t).tkids[c].on = on /\ ND(pid, t).tkids[c].id = u[1] }
Rules(pid, t) == { ND(pid, t).timeouts[i] : i \in DOMAIN ND(pid, t).timeouts }
FirstSteps(pid, t, on) == { c \in DOMAIN ND(pid, t).tkids : ND(pid, t).tkids[c].on = on }

(* at most once per task instance and rule *)
V_C19_Once ==
  UNION { { V("C19_Once", pid, t, {}) :
              t \in { x \in TaskKeys(pid) :
                       \E r \in Rules(pid, x) :
                         Cardinality(RuleInst(pid, x, r.on)) > Cardinality(FirstSteps(pid, x, r.on)) } }
          : pid \in LivePids }

(* never before the task has been open for the configured duration *)
V_C19_NeverEarly ==
  UNION { { V("C19_NeverEarly", pid, t, {}) :
              t \in { x \in TaskKeys(pid) :
                       \E r \in Rules(pid, x) : \E u \in RuleInst(pid, x, r.on) :
                         TS(pid, u).born - TS(pid, x).start < r.secs } }
          : pid \in LivePids }

(* a task that reached a terminal state before the limit never triggers the rule *)
V_C19_OnlyOpen ==
  UNION { { V("C19_OnlyOpen", pid, t, {}) :
              t \in { x \in TaskKeys(pid) :
                       \E r \in Rules(pid, x) : \E u \in RuleInst(pid, x, r.on) : ~TS(pid, u).popen } }
          : pid \in LivePids }

(* no later than one tick after the limit while the task is still open: right  *)
(* after a tick every open timed task whose limit has passed has fired         *)
V_C19_Prompt ==
  IF lastAct.a # "Tick" THEN {}
  ELSE UNION { { V("C19_Prompt", pid, t, {}) :
                   t \in { x \in TaskKeys(pid) :
                            /\ ~IsDone(TS(pid, x).st) /\ TS(pid, x).start >= 0
                            /\ TS(pid, x).st # "none"
                            /\ \E r \in Rules(pid, x) :
                                 /\ now - TS(pid, x).start >= r.secs
                                 /\ FirstSteps(pid, x, r.on) # {}
                                 /\ RuleInst(pid, x, r.on) = {} } }
               : pid \in { q \in LivePids : P(q).ps = "running" } }

(* firing a rule does not by itself close the timed task: a tick changes no    *)
(* existing task's state                                                       *)
C19_TickKeepsStatesStep ==
  lastAct'.a = "Tick" =>
    \A pid \in Pids : procs[pid].st # "absent" =>
      \A t \in DOMAIN procs[pid].ts :
        t \in DOMAIN procs'[pid].ts /\ procs'[pid].ts[t].st = procs[pid].ts[t].st
C19_TickKeepsStates == [][C19_TickKeepsStatesStep]_vars

-----------------------------------------------------------------------------
(* C11 — whenever the engine is quiescent the store holds a complete image:   *)
(* no task row lags its live task (specification: a state written since the  *)
(* last upsert; observed runs: any difference in state, predecessor, error,   *)
(* data, start / end time presence; the process row in state, error, env)     *)
V_C11_Image ==
  IF ~Quiescent THEN {}
  ELSE UNION { { V("C11_Image", pid, t, {}) : t \in procs[pid].dirty }
               : pid \in { q \in LivePids : ~procs[q].gone } }

(* C17 — retention.  Observed runs carry what is left in the store; in the    *)
(* specification a process is either wholly there or gone.                    *)
V_C17_Retention ==
  IF ~Quiescent THEN {}
  ELSE { V("C17_Retention", pid, NoKey, {}) :
           pid \in { q \in LivePids :
                      /\ Terminated(q)
                      /\ IF Keep THEN procs[q].gone ELSE ~procs[q].gone } }
V_C17_RowsLeft ==          \* (observed runs: exactly what the configuration says is left)
  IF ~Quiescent THEN {}
  ELSE { V("C17_RowsLeft", pid, NoKey, {}) :
           pid \in { q \in LivePids :
                      /\ Terminated(q)
                      /\ \/ /\ procs[q].gone
                            /\ (procs[q].rowsLeft.proc \/ procs[q].rowsLeft.tasks # 0)
                         \/ /\ ~procs[q].gone /\ procs[q].rowsLeft.proc
                            /\ \/ procs[q].rowsLeft.tasks # Cardinality(TaskKeys(q))
                               \/ /\ procs[q].rowsLeft.open # 0
                                  /\ \A t \in TaskKeys(q) : IsDone(TS(q, t).st) } }
V_C17_Refused ==
  IF lastAct.a = "Act" /\ lastAct.st = "gone" /\ lastRes # "err"
  THEN { V("C17_Refused", lastAct.pid, lastAct.t, {}) } ELSE {}

-----------------------------------------------------------------------------
(* the invariants TLC checks: each property modulo known findings ...        *)
C01_QuiescentOK      == HoldsX(V_C01_QuiescentOK)
C02_Lifecycle        == HoldsX(V_C02_Lifecycle)
C03_ParentDone       == HoldsX(V_C03_ParentDone)
C03_ProcMirrorsRoot  == HoldsX(V_C03_ProcMirrorsRoot)
C03_Events           == HoldsX(V_C03_Events)
C03_TerminalEvent    == HoldsX(V_C03_TerminalEvent)
C03_CleanEnding      == HoldsX(V_C03_CleanEnding)
C04_Outcome          == HoldsX(V_C04_Outcome)
C04_Order            == HoldsX(V_C04_Order)
C05_Admission        == HoldsX(V_C05_Admission)
C05_TerminalRejected == HoldsX(V_C05_TerminalRejected)
C05_AtMostOnce       == HoldsX(V_C05_AtMostOnce)
C05_NoDupSuccessor   == HoldsX(V_C05_NoDupSuccessor)
C06_Propagates       == HoldsX(V_C06_Propagates)
C06_CatchMatches     == HoldsX(V_C06_CatchMatches)
C06_Taken            == HoldsX(V_C06_Taken)
C06_CatchStepsOnce   == HoldsX(V_C06_CatchStepsOnce)
C06_CaughtCompletes  == HoldsX(V_C06_CaughtCompletes)
C08_AtMostOne        == HoldsX(V_C08_AtMostOne)
C08_CreatedFirst     == HoldsX(V_C08_CreatedFirst)
C08_TerminalReported == HoldsX(V_C08_TerminalReported)
C08_BranchSilent     == HoldsX(V_C08_BranchSilent)
C08_MsgAct           == HoldsX(V_C08_MsgAct)
C08_ParentFirst      == HoldsX(V_C08_ParentFirst)
C11_Image            == HoldsX(V_C11_Image)
C17_Retention        == HoldsX(V_C17_Retention)
C17_RowsLeft         == HoldsX(V_C17_RowsLeft)
C17_Refused          == HoldsX(V_C17_Refused)
C19_Once             == HoldsX(V_C19_Once)
C19_NeverEarly       == HoldsX(V_C19_NeverEarly)
C19_OnlyOpen         == HoldsX(V_C19_OnlyOpen)
C19_Prompt           == HoldsX(V_C19_Prompt)

-----------------------------------------------------------------------------
(* C15 — sub-process call and return *)

(* KF_parent_close_orphans_child: nothing ties a child process to the fate of  *)
(* its caller.  A calling act that is closed by anything but the child's       *)
(* return (a client action on the act itself, an abort of the parent process)  *)
(* leaves the child running; the parent can end first and the child's return   *)
(* is refused later.                                                           *)
KF_parent_close_orphans_child(pid, t) ==
  TS(pid, t).retn = 0 /\ (TS(pid, t).okterm > 0 \/ TS(pid, t).st # "completed" \/ TS(pid, t).caught # NIL)

(* the calling act stays open while its child process runs *)
V_C15_StaysOpen ==
  UNION { { V("C15_StaysOpen", pid, t, {k \in {"KF_parent_close_orphans_child"} : KF_parent_close_orphans_child(pid, t)}) :
              t \in { x \in TaskKeys(pid) : /\ IsSub(pid, x) /\ IsDone(TS(pid, x).st)
                                             /\ \E c \in ChildrenOf(pid, x) : ~ProcEnded(c) } }
          : pid \in LivePids }
(* ... and does not close by itself: only the return or a client closes it *)
V_C15_NoAutoComplete ==
  UNION { { V("C15_NoAutoComplete", pid, t, {}) :
              t \in { x \in TaskKeys(pid) : /\ IsSub(pid, x) /\ TS(pid, x).st = "completed"
                                             /\ TS(pid, x).retn = 0 /\ TS(pid, x).okterm = 0
                                             /\ TS(pid, x).caught = NIL /\ ~TS(pid, x).redo } }
          : pid \in LivePids }
(* closed exactly once: never twice ... *)
V_C15_AtMostOnce ==
  UNION { { V("C15_AtMostOnce", pid, t, {}) : t \in { x \in TaskKeys(pid) : TS(pid, x).retn >= 2 } }
          : pid \in LivePids }
(* ... and never left hanging: once the child has ended and nothing is in flight, the call *)
(* is closed; a call that could not start a child (unknown model) has failed               *)
V_C15_Returned ==
  IF ~Quiescent THEN {}
  ELSE UNION { { V("C15_Returned", pid, t, {}) :
                   t \in { x \in TaskKeys(pid) :
                            /\ IsSub(pid, x) /\ TS(pid, x).st = "running" /\ TS(pid, x).retn = 0
                            /\ TS(pid, x).caught = NIL      \* (not: reopened by its own catch)
                            /\ \A c \in ChildrenOf(pid, x) : ProcEnded(c) } }
               : pid \in { q \in LivePids : ~procs[q].gone /\ ~IsDone(procs[q].ps) } }
(* the child runs the called model with exactly the inputs of the call *)
V_C15_ChildInputs ==
  UNION { { V("C15_ChildInputs", c, NoKey, {}) :
              c \in { x \in ChildrenOfProc(pid) :
                       LET pt == ParentOfProc(procs[x]).t IN
                       pt \in TaskKeys(pid) /\
                       ~(/\ procs[x].inp = ND(pid, pt).opts
                         /\ procs[x].mi = FindModel(procs[pid].mi, ND(pid, pt).to)) } }
          : pid \in LivePids }
(* the parent's terminal event never precedes the child's *)
V_C15_ParentLast ==
  UNION { { V("C15_ParentLast", pid, ParentOfProc(procs[c]).t,
              {k \in {"KF_parent_close_orphans_child"} :
                 LET pt == ParentOfProc(procs[c]).t IN
                 pt \in TaskKeys(pid) /\ (KF_parent_close_orphans_child(pid, pt) \/ ~IsDone(TS(pid, pt).st))}) :
              c \in { x \in ChildrenOfProc(pid) : procs[x].ev.term = 0 } }
          : pid \in { q \in LivePids : Terminated(q) } }
(* a return closes the act the way the child ended (step formula) *)
C15_ReturnMatchesStep ==
  (lastAct'.a = "Return" /\ lastRes' = "ok") =>
    LET pid == lastAct'.pid  t == lastAct'.t  k == lastAct'.kind
        cs == { c \in Pids : procs'[c].st # "absent" /\ ParentOfProc(procs'[c]) = [pid |-> pid, t |-> t]
                              /\ procs'[c].ts # <<>> /\ IsDone(procs'[c].ps) }
        T == procs'[pid].ts[t]
    IN /\ \E c \in cs : k = (CASE procs'[c].ps = "aborted" -> "abort" [] procs'[c].ps = "skipped" -> "skip"
                                 [] procs'[c].ps = "error" -> "error" [] OTHER -> "complete")
       /\ (k = "complete" => T.st = "completed")
       /\ (k = "abort" => T.st = "aborted")
       /\ (k = "skip" => T.st = "skipped")
       /\ (k = "error" => \E c \in cs : procs'[c].ps = "error"
                                         /\ (T.err = procs'[c].perr \/ T.caught = procs'[c].perr))
C15_ReturnMatches == [][C15_ReturnMatchesStep]_vars

-----------------------------------------------------------------------------
(* C13 — processes are isolated *)

(* what a process is, for the comparison: states, errors, links and data of its tasks *)
ProcImage(p) ==
  IF p.st = "absent" THEN <<"absent">>
  ELSE IF p.ts = <<>> THEN <<"started">>
  ELSE <<p.ps, p.perr, [k \in DOMAIN p.ts |-> <<p.ts[k].st, p.ts[k].err, p.ts[k].prev, p.ts[k].data>>]>>

(* (on observed runs the data of a process that is not in the cache is unknown: "?") *)
SameImage(p, q) ==
  \/ ProcImage(p) = ProcImage(q)
  \* (observed runs: a process that is not in the cache is known by its probes only)
  \/ p.st # "absent" /\ q.st # "absent" /\ (~p.cached \/ ~q.cached)
  \/ /\ p.st # "absent" /\ q.st # "absent" /\ p.ts # <<>> /\ q.ts # <<>>
     /\ p.ps = q.ps /\ p.perr = q.perr /\ DOMAIN p.ts = DOMAIN q.ts
     /\ \A k \in DOMAIN p.ts : /\ p.ts[k].st = q.ts[k].st /\ p.ts[k].err = q.ts[k].err /\ p.ts[k].prev = q.ts[k].prev
                                /\ (p.ts[k].data = q.ts[k].data \/ p.ts[k].data = "?" \/ q.ts[k].data = "?")

(* a step of one process leaves every other process, its queue entries and its   *)
(* messages alone; the only things it may do to others: start a child, and park a *)
(* return to its caller                                                           *)
C13_OnlyOwnStep ==
  (lastAct'.a \in {"StartCall", "Launch", "Exec", "Act", "Return", "Evict"}) =>
    LET own == lastAct'.pid IN
    /\ \A q \in Pids \ {own} :
          \/ SameImage(procs'[q], procs[q])
          \/ /\ ProcImage(procs[q]) \in {<<"absent">>, <<"started">>}       \* a child started by this step
              /\ ProcImage(procs'[q]) = <<"started">>
              /\ ParentOfProc(procs'[q]).pid = own
          \/ procs[q].st # "absent" /\ procs[q].gone /\ ProcImage(procs'[q]) = <<"started">>
    \* (observed runs: the environment of another process, where it is known before and after)
    /\ \A q \in Pids \ {own} :
          (procs[q].st # "absent" /\ procs'[q].st # "absent" /\ procs[q].env # "" /\ procs'[q].env # "")
             => procs'[q].env = procs[q].env
    /\ \A x \in queue' \ queue : x[1] = own
    /\ \A x \in queue \ queue' : x[1] = own
    /\ \A i \in DOMAIN lastOut' : lastOut'[i].pid = own
C13_OnlyOwn == [][C13_OnlyOwnStep]_vars

(* a start with the id of a process that is still there is refused *)
C13_DupRefusedStep ==
  (lastAct'.a = "StartCall" /\ lastRes' = "ok") =>
    LET pid == lastAct'.pid IN procs[pid].st = "absent" \/ procs[pid].gone
C13_DupRefused == [][C13_DupRefusedStep]_vars

C15_StaysOpen        == HoldsX(V_C15_StaysOpen)
C15_NoAutoComplete   == HoldsX(V_C15_NoAutoComplete)
C15_AtMostOnce       == HoldsX(V_C15_AtMostOnce)
C15_Returned         == HoldsX(V_C15_Returned)
C15_ChildInputs      == HoldsX(V_C15_ChildInputs)
C15_ParentLast       == HoldsX(V_C15_ParentLast)

(* ... and everything at once, for the observed behaviours *)
AllV ==
  V_C01_QuiescentOK \cup V_C02_Lifecycle \cup V_C03_ParentDone \cup V_C03_ProcMirrorsRoot
  \cup V_C03_Events \cup V_C03_TerminalEvent \cup V_C03_CleanEnding
  \cup V_C04_Outcome \cup V_C04_Order \cup V_C05_Admission
  \cup V_C05_TerminalRejected \cup V_C05_AtMostOnce \cup V_C05_NoDupSuccessor
  \cup V_C06_Propagates \cup V_C06_CatchMatches \cup V_C06_Taken \cup V_C06_CatchStepsOnce
  \cup V_C06_CaughtCompletes \cup V_C08_AtMostOne \cup V_C08_CreatedFirst
  \cup V_C08_TerminalReported \cup V_C08_BranchSilent \cup V_C08_MsgAct \cup V_C08_ParentFirst
  \cup V_C19_Once \cup V_C19_NeverEarly \cup V_C19_OnlyOpen \cup V_C19_Prompt
  \cup V_C15_StaysOpen \cup V_C15_NoAutoComplete \cup V_C15_AtMostOnce \cup V_C15_Returned
  \cup V_C15_ChildInputs \cup V_C15_ParentLast
  \cup V_C11_Image \cup V_C17_Retention \cup V_C17_RowsLeft \cup V_C17_Refused

(* debugging aid: bound on instances per node *)
DBG_FewInstances == \A pid \in Pids : Live(pid) => \A t \in TaskKeys(pid) : t[2] <= 3
=============================================================================
