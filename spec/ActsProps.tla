------------------------------ MODULE ActsProps ------------------------------
(***************************************************************************)
(* The listed properties as formulas over the state of Acts.tla.  The same *)
(* operators are evaluated by TLC on the specification (every schedule,    *)
(* every model of the family) and, through Observe.tla, on the states the  *)
(* implementation was observed in.                                         *)
(***************************************************************************)
EXTENDS Acts

Started(pid) == procs[pid].st # "absent"
Live(pid) == Started(pid) /\ procs[pid].ts # <<>>
Quiescent == queue = {} /\ spawn = {}

P(pid) == procs[pid]                       \* also serves as the S record of Acts' operators
ND(pid, t) == Trees[procs[pid].mi].n[t[1]]
TaskKeys(pid) == DOMAIN procs[pid].ts

Desc(S, t) == { u \in DOMAIN S.ts : t \in AncSet(S, u) }

IsIrq(pid, t) == ND(pid, t).kind = "act" /\ ND(pid, t).uses = "irq"
OpenIrq(pid) == \E t \in TaskKeys(pid) : P(pid).ts[t].st = "interrupted" /\ ND(pid, t).kind = "act"
Terminated(pid) == procs[pid].ev.term >= 1

-----------------------------------------------------------------------------
(* C01 — whenever nothing is in flight, every started process has delivered  *)
(* its terminal event or waits on an open interrupt act.                     *)
C01_QuiescentOK ==
  Quiescent => \A pid \in Pids : Live(pid) => Terminated(pid) \/ OpenIrq(pid)

(* C02 — only legal transitions; every write is judged where it happens      *)
(* (Acts!SetStVia) and offenders are collected in `viol`.                    *)
C02_Lifecycle == \A pid \in Pids : Started(pid) => procs[pid].viol = {}

-----------------------------------------------------------------------------
(* C03 *)
C03_ParentDone ==
  \A pid \in Pids : Live(pid) =>
    \A t \in TaskKeys(pid) :
      P(pid).ts[t].st = "completed" =>
        \A u \in Desc(P(pid), t) : IsDone(P(pid).ts[u].st)

C03_ProcMirrorsRoot ==
  \A pid \in Pids : Live(pid) =>
    LET root == RootKey(P(pid)) IN
    root \in TaskKeys(pid) =>
      ((IsDone(P(pid).ts[root].st) \/ IsDone(P(pid).ps)) => P(pid).ps = P(pid).ts[root].st)

C03_Events ==
  \A pid \in Pids : Started(pid) =>
    LET ev == procs[pid].ev IN
    /\ ev.start <= 1 /\ ev.term <= 1
    /\ (ev.term >= 1 => ev.start >= 1)
    /\ Cardinality(ev.kinds) <= 1

C03_TerminalEvent ==
  \A pid \in Pids : Live(pid) /\ IsDone(P(pid).ps) => procs[pid].ev.term >= 1

(* a non-error ending leaves nothing open (a queued task in state none is    *)
(* open: it will be executed and open new tasks)                             *)
C03_CleanEnding ==
  \A pid \in Pids : Live(pid) /\ procs[pid].ev.kinds = {"complete"} =>
    \A t \in TaskKeys(pid) : IsDone(P(pid).ts[t].st)

-----------------------------------------------------------------------------
(* C05 *)
C05_Admission ==
  lastRes = "ok" /\ lastAct.a = "Act" =>
    /\ lastAct.st # "absent"
    /\ (lastAct.kind = "push" => ND(lastAct.pid, lastAct.t).kind = "step")
    /\ (lastAct.kind # "push" => ND(lastAct.pid, lastAct.t).kind = "act")

C05_TerminalRejected ==
  lastAct.a = "Act" /\ lastAct.kind \in TerminalKinds /\ IsDone(lastAct.st) => lastRes = "err"

C05_AtMostOnce ==
  \A pid \in Pids : Live(pid) => \A t \in TaskKeys(pid) : P(pid).ts[t].okterm <= 1

(* successors are created exactly once: no two tasks of one node hang off    *)
(* the same predecessor, unless back/cancel re-created the step              *)
C05_NoDupSuccessor ==
  \A pid \in Pids : Live(pid) =>
    \A u, v \in TaskKeys(pid) :
      (u # v /\ u[1] = v[1] /\ P(pid).ts[u].prev = P(pid).ts[v].prev)
        => (P(pid).ts[u].redo \/ P(pid).ts[v].redo)

(* a rejected complete/submit/skip/remove/abort/error/back changes nothing   *)
C05_RejectedIsNoop ==
  [][ (lastRes' = "err" /\ lastAct'.kind \in TerminalKinds)
        => (UNCHANGED <<procs, queue, spawn>> /\ lastOut' = <<>>) ]_vars

-----------------------------------------------------------------------------
(* C06 *)
(* an error that no catch took has climbed: the parent carries the same code, *)
(* the root's error is the process's error                                    *)
C06_Propagates ==
  Quiescent => \A pid \in Pids : Live(pid) =>
    \A t \in TaskKeys(pid) :
      P(pid).ts[t].st = "error" =>
        LET p == ParentOf(P(pid), t)  e == P(pid).ts[t].err IN
        IF p = NoKey THEN P(pid).ps = "error" /\ P(pid).perr = e
        ELSE \/ P(pid).ts[p].st = "error" /\ P(pid).ts[p].err = e
             \/ P(pid).ts[p].catchDone /\ P(pid).ts[p].caught = e      \* taken by the parent's catch

(* a catch takes only an error it matches, and it is the first matching one  *)
C06_CatchMatches ==
  \A pid \in Pids : Live(pid) =>
    \A t \in TaskKeys(pid) :
      P(pid).ts[t].catchDone =>
        LET cs == ND(pid, t).catches  i == P(pid).ts[t].caughtBy  code == P(pid).ts[t].caught IN
        /\ i \in DOMAIN cs
        /\ (cs[i] = NIL \/ cs[i] = code)
        /\ \A j \in 1..(i - 1) : ~(cs[j] = NIL \/ cs[j] = code)

(* the steps of the catch that took the error are instantiated exactly once,  *)
(* those of the other catches never                                           *)
C06_CatchStepsOnce ==
  \A pid \in Pids : Live(pid) =>
    \A t \in TaskKeys(pid) :
      LET n == ND(pid, t)
          inst(id) == { u \in TaskKeys(pid) : u[1] = id /\ P(pid).ts[u].prev = t } IN
      \A c \in DOMAIN n.ckids :
        IF P(pid).ts[t].catchDone /\ n.catches[P(pid).ts[t].caughtBy] = n.ckids[c].on
        THEN Cardinality(inst(n.ckids[c].id)) = 1
        ELSE Cardinality(inst(n.ckids[c].id)) = 0

(* once the catch steps are finished the catching task has completed          *)
C06_CaughtCompletes ==
  Quiescent => \A pid \in Pids : Live(pid) =>
    \A t \in TaskKeys(pid) :
      (P(pid).ts[t].catchDone /\ \A u \in Desc(P(pid), t) : IsDone(P(pid).ts[u].st))
        => P(pid).ts[t].st # "running"

-----------------------------------------------------------------------------
(* C08 (generation side) *)
Emits(pid, t) == ND(pid, t).kind \in {"workflow", "step"} \/ IsIrq(pid, t)

C08_AtMostOne ==
  \A pid \in Pids : Live(pid) =>
    \A t \in TaskKeys(pid) : P(pid).ts[t].mcre <= 1 /\ P(pid).ts[t].mterm <= 1

C08_CreatedFirst ==      \* a terminal message of a task that was open follows its created one
  \A pid \in Pids : Live(pid) =>
    \A t \in TaskKeys(pid) :
      (Emits(pid, t) /\ P(pid).ts[t].st \in (Created \cup {"running"})) => P(pid).ts[t].mcre = 1

C08_TerminalReported ==
  \A pid \in Pids : Live(pid) =>
    \A t \in TaskKeys(pid) :
      (Emits(pid, t) /\ IsDone(P(pid).ts[t].st)) => P(pid).ts[t].mterm >= 1

C08_BranchSilent ==
  \A pid \in Pids : Live(pid) =>
    \A t \in TaskKeys(pid) :
      ND(pid, t).kind = "branch" => P(pid).ts[t].mcre = 0 /\ P(pid).ts[t].mterm = 0

C08_MsgAct ==
  \A pid \in Pids : Live(pid) =>
    \A t \in TaskKeys(pid) :
      (ND(pid, t).kind = "act" /\ ND(pid, t).uses = "msg") =>
        /\ P(pid).ts[t].mcre = 0
        /\ (P(pid).ts[t].st = "completed" => P(pid).ts[t].mterm = 1)

C08_ParentFirst ==
  \A pid \in Pids : Live(pid) =>
    \A t \in TaskKeys(pid) :
      P(pid).ts[t].mcre >= 1 =>
        LET p == ParentOf(P(pid), t) IN
        (p # NoKey /\ ND(pid, p).kind \in {"workflow", "step"}) => P(pid).ts[p].mcre >= 1

(* debugging aid: bound on instances per node *)
DBG_FewInstances == \A pid \in Pids : Live(pid) => \A t \in TaskKeys(pid) : t[2] <= 3
=============================================================================
