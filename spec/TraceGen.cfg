SPECIFICATION GSpec
POSTCONDITION GDone
CHECK_DEADLOCK FALSE
