------------------------------ MODULE AckRetry ------------------------------
(***************************************************************************)
(* Acknowledged delivery (C09): the stored message rows, the tick that     *)
(* re-sends them, and the client calls that close them.                    *)
(*                                                                         *)
(* Transcribed from export/channel.rs (store_if), cache/store.rs           *)
(* (with_no_response_messages, set_message, set_message_with,              *)
(* resend_error_messages, clear_error_messages) and runtime.rs:246-292.    *)
(* The store's query semantics is a parameter: "sound" is what a filter    *)
(* means; "F7" is the in-memory backend's AND accumulation, in which an    *)
(* empty partial result means "no constraint yet" (collect.rs:170-191).    *)
(*                                                                         *)
(* Time is in abstract units; the retry interval is Interval units.  A row *)
(* that has never been touched (upd = -1: update_time = 0 in the engine)   *)
(* is always stale.                                                        *)
(***************************************************************************)
EXTENDS Integers, Sequences, FiniteSets, TLC, SequencesExt

CONSTANTS Ids,        \* message numbers 1..N (one interrupt act each, one process)
          MaxRetry,   \* max_message_retry_times
          Interval,   \* retry interval in time units
          MaxTime,
          QueryMode   \* "sound" | "F7"

VARIABLES rows,       \* id -> [status, retry, upd]   (absent ids: not stored / deleted)
          sent,       \* ids already emitted by the engine
          now,
          lastDeliv,  \* deliveries made by the last step: sequence of [id, retry]
          lastOp,
          acted       \* acts a client action has closed; when all are, the process ends and its
                      \* final message (workflow completed, number N+1) goes to the channel

avars == <<rows, sent, now, lastDeliv, lastOp, acted>>
Final == Cardinality(Ids) + 1

Stored == DOMAIN rows

(* the result of an AND query given, per expression, the set of matching ids *)
RECURSIVE AndAcc(_, _, _)
AndAcc(matches, i, acc) ==
  IF i > Len(matches) THEN acc
  ELSE AndAcc(matches, i + 1,
              IF QueryMode = "F7" /\ acc = {} THEN matches[i]
              ELSE IF i = 1 THEN matches[i] ELSE acc \cap matches[i])
QueryAnd(matches) == AndAcc(matches, 1, {})

Stale(id) == rows[id].upd = -1 \/ rows[id].upd < now - Interval   \* -1: never touched, always stale

(* the engine generates message `id` and dispatches it to the acknowledging   *)
(* channel: the row is stored, then the handler runs (channel.rs:133-141,     *)
(* 191-207)                                                                   *)
Emit(id) ==
  /\ id \in Ids \ sent
  /\ sent' = sent \cup {id}
  /\ rows' = (id :> [status |-> "created", retry |-> 0, upd |-> -1]) @@ rows
  /\ lastDeliv' = <<[id |-> id, retry |-> 0]>>
  /\ lastOp' = [op |-> "Emit", id |-> id]
  /\ UNCHANGED <<now, acted>>

(* runtime.rs:262-273 + cache/store.rs:128-160; rows are visited in id order  *)
RECURSIVE TickRows(_, _, _)
TickRows(ids, R, D) ==     \* ids: sequence; returns [R, D]
  IF ids = <<>> THEN [R |-> R, D |-> D]
  ELSE LET id == Head(ids) IN
       IF R[id].retry < MaxRetry
       THEN TickRows(Tail(ids), [R EXCEPT ![id].upd = now, ![id].retry = @ + 1],
                     Append(D, [id |-> id, retry |-> R[id].retry + 1]))
       ELSE TickRows(Tail(ids), [R EXCEPT ![id].upd = now, ![id].status = "error"], D)

Sorted(S) == SortSeq(SetToSeq(S), LAMBDA a, b : a < b)

Tick ==
  /\ LET hit == QueryAnd(<< { id \in Stored : rows[id].status = "created" },
                            { id \in Stored : Stale(id) } >>)
         r == TickRows(Sorted(hit), rows, <<>>)
     IN /\ rows' = r.R
        /\ lastDeliv' = r.D
  /\ lastOp' = [op |-> "Tick", id |-> 0]
  /\ UNCHANGED <<sent, now, acted>>

Ack(id) ==                              \* Runtime::ack -> set_message(id, Acked)
  /\ id \in sent
  /\ rows' = IF id \in Stored THEN [rows EXCEPT ![id].status = "acked", ![id].upd = now] ELSE rows
  /\ lastDeliv' = <<>> /\ lastOp' = [op |-> "Ack", id |-> id]
  /\ UNCHANGED <<sent, now, acted>>

(* an action on the task of message id: set_message_with(pid, tid, Completed) *)
(* (task.rs:584-591); every message here has the same pid and its own tid     *)
ActOn(id) ==
  /\ id \in (sent \cap Ids) \ acted
  /\ acted' = acted \cup {id}
  /\ LET hit == QueryAnd(<< Stored, { x \in Stored : x = id } >>)
         R1 == [x \in Stored |-> IF x \in hit THEN [rows[x] EXCEPT !.status = "completed", !.upd = now]
                                 ELSE rows[x]]
     IN IF acted \cup {id} = Ids
        \* the last open act: the process ends; its final message is stored and handed over
        \* like any other, and nothing is running any more when the next ticks come
        THEN /\ rows' = (Final :> [status |-> "created", retry |-> 0, upd |-> -1]) @@ R1
             /\ sent' = sent \cup {Final}
             /\ lastDeliv' = <<[id |-> Final, retry |-> 0]>>
        ELSE /\ rows' = R1 /\ sent' = sent /\ lastDeliv' = <<>>
  /\ lastOp' = [op |-> "ActOn", id |-> id]
  /\ UNCHANGED now

Redo ==                                 \* resend_error_messages
  /\ rows' = [x \in Stored |-> IF rows[x].status = "error"
                               THEN [status |-> "created", retry |-> 0, upd |-> now] ELSE rows[x]]
  /\ lastDeliv' = <<>> /\ lastOp' = [op |-> "Redo", id |-> 0]
  /\ UNCHANGED <<sent, now, acted>>

(* clear_error_messages(Some(pid)) / (None); all messages belong to the one pid *)
Clear(withPid) ==
  /\ LET errs == { x \in Stored : rows[x].status = "error" }
         hit == IF withPid THEN QueryAnd(<<errs, Stored>>) ELSE errs
     IN rows' = [x \in Stored \ hit |-> rows[x]]
  /\ lastDeliv' = <<>> /\ lastOp' = [op |-> IF withPid THEN "ClearPid" ELSE "ClearAll", id |-> 0]
  /\ UNCHANGED <<sent, now, acted>>

Advance(d) ==
  /\ now + d <= MaxTime
  /\ now' = now + d
  /\ lastDeliv' = <<>> /\ lastOp' = [op |-> "Advance", id |-> d]
  /\ UNCHANGED <<rows, sent, acted>>

Init ==
  /\ rows = <<>> /\ sent = {} /\ now = 0 /\ lastDeliv = <<>> /\ lastOp = [op |-> "Init", id |-> 0]
  /\ acted = {}

Next ==
  \/ \E id \in Ids : Emit(id) \/ Ack(id) \/ ActOn(id)
  \/ Ack(Final)
  \/ Tick \/ Redo \/ Clear(TRUE) \/ Clear(FALSE)
  \/ \E d \in {1, Interval + 1} : Advance(d)

Spec == Init /\ [][Next]_avars

-----------------------------------------------------------------------------
(* C09 *)

(* every delivery is of a stored row, with the row's id and retry count *)
StoredBeforeHandler ==
  \A i \in DOMAIN lastDeliv :
    /\ lastDeliv[i].id \in Stored
    /\ rows[lastDeliv[i].id].retry = lastDeliv[i].retry

(* the retry count never exceeds the maximum; an error row is exhausted *)
Bounded ==
  \A id \in Stored : /\ rows[id].retry <= MaxRetry
                     /\ (rows[id].status = "error" => rows[id].retry = MaxRetry)

(* redelivery: a tick re-sends exactly the created, stale rows below the limit, *)
(* each with its count grown by one; exhausted ones turn error                   *)
RedeliveryStep ==
  lastOp'.op = "Tick" =>
    LET due == { id \in Stored : rows[id].status = "created" /\ Stale(id) } IN
    /\ { lastDeliv'[i].id : i \in DOMAIN lastDeliv' } = { id \in due : rows[id].retry < MaxRetry }
    /\ \A i \in DOMAIN lastDeliv' : lastDeliv'[i].retry = rows[lastDeliv'[i].id].retry + 1
    /\ \A id \in due : rows[id].retry >= MaxRetry => rows'[id].status = "error"
Redelivery == [][RedeliveryStep]_avars

(* once acknowledged, or once its task has been acted on, a message is never    *)
(* redelivered and its status never changes back; an error row stays silent     *)
(* until an explicit redo                                                       *)
SilentStep ==
  \A id \in Stored :
    /\ rows[id].status \in {"acked", "completed"} =>
         /\ \A i \in DOMAIN lastDeliv' : lastDeliv'[i].id # id
         /\ (id \in DOMAIN rows' => rows'[id].status \in {"acked", "completed"})
         /\ (id \in DOMAIN rows' => rows'[id].retry = rows[id].retry)
    /\ rows[id].status = "error" =>
         /\ \A i \in DOMAIN lastDeliv' : lastDeliv'[i].id # id
         /\ (id \in DOMAIN rows' /\ rows'[id].status = "created" => lastOp'.op = "Redo")
    /\ (id \notin DOMAIN rows' => lastOp'.op \in {"ClearPid", "ClearAll"} /\ rows[id].status = "error")
SilentAfterAck == [][SilentStep]_avars
=============================================================================
