------------------------------- MODULE MCActs -------------------------------
EXTENDS ActsProps, Json, IOUtils

Raw == ndJsonDeserialize(IOEnv.MODELS)
(* LET-bound: otherwise the file is parsed again for every index *)
MCModels == LET R == Raw IN [i \in DOMAIN R |-> R[i].spec]
MCInputSets == LET R == Raw IN [i \in DOMAIN R |-> { R[i].inputs[j] : j \in DOMAIN R[i].inputs }]

(* clock readings explored (the same grid the harness moves on) *)
CONSTANT Grid
ClockGrid == now \in Grid

(* models with a backward `next` jump run for ever: at most MaxInst instances  *)
(* of a node are explored                                                      *)
CONSTANT MaxInst
InstBound == \A pid \in Pids : procs[pid].st # "absent" => \A t \in DOMAIN procs[pid].ts : t[2] <= MaxInst

(* Observation variables are not part of the explored state, and creation     *)
(* stamps matter only as the order among the tasks that hang off one          *)
(* predecessor (Process::children sorts by them): states that differ in the   *)
(* absolute stamps only are the same state.                                   *)
CanonProc(p) ==
  IF p.st = "absent" THEN p
  ELSE [p EXCEPT !.nseq = 0,
                 !.ts = [t \in DOMAIN p.ts |->
                           [p.ts[t] EXCEPT !.seq =
                              Cardinality({ u \in DOMAIN p.ts : p.ts[u].prev = p.ts[t].prev
                                                               /\ p.ts[u].seq < p.ts[t].seq })]]]
View == <<[pid \in Pids |-> CanonProc(procs[pid])], queue, spawn, budget, now>>
=============================================================================
