------------------------------- MODULE MCActs -------------------------------
EXTENDS ActsProps, Json, IOUtils

Raw == ndJsonDeserialize(IOEnv.MODELS)
(* LET-bound: otherwise the file is parsed again for every index *)
MCModels == LET R == Raw IN [i \in DOMAIN R |-> R[i].spec]
MCInputSets == LET R == Raw IN [i \in DOMAIN R |-> { R[i].inputs[j] : j \in DOMAIN R[i].inputs }]

(* observation variables are not part of the explored state *)
View == <<procs, queue, spawn, budget>>
=============================================================================
