------------------------------- MODULE MCActs -------------------------------
EXTENDS ActsProps, Json, IOUtils

Raw == ndJsonDeserialize(IOEnv.MODELS)
MCModels == [i \in DOMAIN Raw |-> Raw[i].spec]
MCInputSets == [i \in DOMAIN Raw |-> { Raw[i].inputs[j] : j \in DOMAIN Raw[i].inputs }]

(* observation variables are not part of the explored state *)
View == <<procs, queue, spawn, budget>>
=============================================================================
