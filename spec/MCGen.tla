------------------------------- MODULE MCGen -------------------------------
(* TLC on Gen.tla: for every program of the family, every order in which a   *)
(* client can complete the open interrupts and push up to MaxPush more: the  *)
(* laws of C16 hold in every reachable state.                                *)
EXTENDS Gen, Json, IOUtils, TLC
Raw == ndJsonDeserialize(IOEnv.MODELS)
Progs == LET R == Raw IN [i \in DOMAIN R |-> R[i].prog]
CONSTANT MaxPush
VARIABLES pi, D, pushed
vars == <<pi, D, pushed>>
Init == pi \in DOMAIN Progs /\ D = {} /\ pushed = {}
Complete == \E x \in StepOpen(Progs[pi], D, pushed) : D' = D \cup {x} /\ UNCHANGED <<pi, pushed>>
Push == /\ Cardinality(pushed) < MaxPush /\ ~StepDone(Progs[pi], D, pushed)
        /\ pushed' = pushed \cup {"p" \o ToString(Cardinality(pushed) + 1)} /\ UNCHANGED <<pi, D>>
Next == Complete \/ Push
Spec == Init /\ [][Next]_vars /\ WF_vars(Complete)
GenLaws == Laws(Progs[pi], D, pushed)
(* a step of the client never closes or reopens anything else: what was open stays open *)
MonotoneStep == StepOpen(Progs[pi], D, pushed) \ (D' \ D) \subseteq StepOpen(Progs[pi], D', pushed')
Monotone == [][MonotoneStep]_vars
(* every program comes to its end when the client keeps answering *)
Terminates == <>StepDone(Progs[pi], D, pushed)
=============================================================================
