------------------------------- MODULE Observe -------------------------------
(***************************************************************************)
(* OBSERVE: the property formulas of ActsProps.tla evaluated on what the   *)
(* implementation actually did.                                            *)
(*                                                                         *)
(* This module has no operational content.  Its Next only LOADS each       *)
(* recorded step into the variables of Acts.tla: the projected post-state  *)
(* as the harness dumped it, plus the bookkeeping the formulas speak about *)
(* (message counts from the generation probes, write legality from the     *)
(* state-write probes, accepted actions from the recorded results).  It    *)
(* does not matter here whether the code still follows Acts.tla.           *)
(*                                                                         *)
(* Violations are printed, one line each, as                               *)
(*   OBS|VIOLATION or KNOWN|property|scenario|line|step|pid|task|findings  *)
(* and the run always consumes the whole log.                              *)
(***************************************************************************)
EXTENDS ActsProps, Json, IOUtils

Log == ndJsonDeserialize(IOEnv.TRACE)
ModelLines == LET L == Log IN SelectSeq(L, LAMBDA r : r.ev \in {"model", "submodel"})
TraceModels == LET M == ModelLines IN [j \in DOMAIN M |-> M[j].model]
TraceInputSets == LET M == ModelLines IN [j \in DOMAIN M |-> {M[j].inputs}]

VARIABLES l,     \* next line of the log
          sc,    \* index of the current scenario (= its model index)
          seen,  \* violations already reported in this scenario
          thrash \* the known finding that explains ANY deviation of this scenario, or "" (ungated runs)

ovars == <<vars, l, sc, seen, thrash>>

Count(seq, Test(_)) == Len(SelectSeq(seq, Test))
SatAdd(n, k) == IF n + k >= 2 THEN 2 ELSE n + k

(* a new task record from the dump, the step's probes and the previous record *)
LoadTask(pid, mi, r, x, old, isNew, oldts) ==
  LET k == x.k
      cre == Count(r.gens, LAMBDA g : g.what = "message" /\ g.pid = pid /\ g.t = k /\ g.state = "created")
      trm == Count(r.gens, LAMBDA g : g.what = "message" /\ g.pid = pid /\ g.t = k /\ IsDone(g.state))
      okact == /\ \/ r.a = "Act" /\ r.res = "ok" /\ r.pid = pid /\ r.t = k /\ r.kind \in TerminalKinds
                  \* (a burst of concurrent client calls in an ungated run)
                  \/ r.a = "Burst" /\ \E i \in DOMAIN r.acts : /\ r.acts[i].pid = pid /\ r.acts[i].t = k
                                                                /\ r.acts[i].res = "ok"
               /\ IsDone(x.st)      \* (an error taken by the act's own catch re-opens it)
      errw == SelectSeq(r.ws, LAMBDA w : w.kind # "proc" /\ w.pid = pid /\ w.t = k /\ w.new = "error")
      revs == Count(r.ws, LAMBDA w : w.kind # "proc" /\ w.pid = pid /\ w.t = k
                                      /\ w.old = "error" /\ w.new = "running")
      revived == revs > 0
      code == IF errw # <<>> THEN errw[Len(errw)].err ELSE IF isNew THEN NIL ELSE old.err
      cs == Trees[mi].n[k[1]].catches
      retok == r.a = "Return" /\ r.res = "ok" /\ r.pid = pid /\ r.t = k
      first == { i \in DOMAIN cs : (cs[i] = NIL \/ cs[i] = code)
                                   /\ \A j \in 1..(i - 1) : ~(cs[j] = NIL \/ cs[j] = code) }
  IN [st |-> x.st, prev |-> x.prev, seq |-> x.seq, err |-> x.err, emitOff |-> x.emitOff,
      catchDone |-> x.catchDone, hooked |-> FALSE,
      start |-> x.start, tdone |-> { x.tdone[i] : i \in DOMAIN x.tdone },
      born |-> IF isNew THEN r.post.now ELSE old.born,
      \* was the predecessor open just before the step that created this task
      popen |-> IF ~isNew THEN old.popen
                ELSE IF x.prev \in DOMAIN oldts THEN ~IsDone(oldts[x.prev].st) ELSE TRUE,
      mcre |-> SatAdd(IF isNew THEN 0 ELSE old.mcre, cre),
      mterm |-> SatAdd(IF isNew THEN 0 ELSE old.mterm, trm),
      okterm |-> SatAdd(IF isNew THEN 0 ELSE old.okterm, IF okact THEN 1 ELSE 0),
      caught |-> IF revived THEN code ELSE IF isNew THEN NIL ELSE old.caught,
      caughtBy |-> IF revived THEN (IF first = {} THEN 0 ELSE CHOOSE i \in first : TRUE)
                   ELSE IF isNew THEN 0 ELSE old.caughtBy,
      revivals |-> SatAdd(IF isNew THEN 0 ELSE old.revivals, revs),
      redo |-> IF isNew THEN (r.a = "Act" /\ r.kind \in {"back", "cancel"}) ELSE old.redo,
      noauto |-> IF "noauto" \in DOMAIN x THEN x.noauto ELSE FALSE,
      data |-> IF "data" \in DOMAIN x THEN x.data ELSE "",
      retn |-> SatAdd(IF isNew THEN 0 ELSE old.retn, IF retok THEN 1 ELSE 0)]

(* writes of this step that the lifecycle forbids; error -> running is legal  *)
(* once per task (the catch revival; that a catch matched is C06's business)  *)
BadWrites(pid, r, oldp) ==
  LET ws == SelectSeq(r.ws, LAMBDA w : w.kind # "proc" /\ w.pid = pid)
      before(k) == IF oldp.ts # <<>> /\ k \in DOMAIN oldp.ts THEN oldp.ts[k].revivals ELSE 0
      earlier(j) == Cardinality({ i \in 1..(j - 1) : ws[i].t = ws[j].t /\ ws[i].old = "error"
                                                     /\ ws[i].new = "running" })
  IN { [t |-> ws[i].t, old |-> ws[i].old, new |-> ws[i].new, via |-> ws[i].via] :
         i \in { j \in DOMAIN ws :
                  /\ ~LegalWrite(ws[j].old, ws[j].new)
                  /\ ~(ws[j].old = "error" /\ ws[j].new = "running"
                       /\ before(ws[j].t) + earlier(j) = 0) } }

(* the store's image against the live process (C11): the keys of the tasks   *)
(* whose row is missing or differs (state, predecessor, error, data, start  *)
(* and end time presence), plus "proc" markers for the process row           *)
ImageDiff(pid, r) ==
  LET lp == r.post.procs[pid]
      rw == r.post.rows[pid]
      row(k) == { rw.tasks[i] : i \in { j \in DOMAIN rw.tasks : rw.tasks[j].k = k } }
      same(x, y) == /\ x.st = y.st /\ x.prev = y.prev /\ x.err = y.err /\ x.data = y.data
                    /\ x.hasStart = y.hasStart /\ x.hasEnd = y.hasEnd
      live == { lp.tasks[i].k : i \in DOMAIN lp.tasks }
  IN { lp.tasks[i].k : i \in { j \in DOMAIN lp.tasks :
                                 ~\E y \in row(lp.tasks[j].k) : same(lp.tasks[j], y) } }
     \cup { rw.tasks[i].k : i \in { j \in DOMAIN rw.tasks : rw.tasks[j].k \notin live } }
     \cup (IF rw.proc.exists /\ rw.proc.ps = lp.ps /\ rw.proc.perr = lp.perr /\ rw.proc.env = lp.env
           THEN {} ELSE {<<"proc-row", 0>>})

LoadProc(pid, r, oldp) ==
  LET lp == r.post.procs[pid] IN
  IF ~lp.cached
  THEN \* no live image (evicted, or removed after its terminal event): what this step did is
       \* still known from its probes - the last write per task, the events generated
       LET tws == SelectSeq(r.ws, LAMBDA w : w.kind # "proc" /\ w.pid = pid)
           pws == SelectSeq(r.ws, LAMBDA w : w.kind = "proc" /\ w.pid = pid)
           lastw(k) == LET mine == SelectSeq(tws, LAMBDA w : w.t = k) IN
                       IF mine = <<>> THEN "-" ELSE mine[Len(mine)].new
           starts == Count(r.gens, LAMBDA g : g.what = "start" /\ g.pid = pid)
           comps == Count(r.gens, LAMBDA g : g.what = "complete" /\ g.pid = pid)
           errs == Count(r.gens, LAMBDA g : g.what = "error" /\ g.pid = pid)
           cntc(k) == Count(r.gens, LAMBDA g : g.what = "message" /\ g.pid = pid /\ g.t = k /\ g.state = "created")
           cntt(k) == Count(r.gens, LAMBDA g : g.what = "message" /\ g.pid = pid /\ g.t = k /\ IsDone(g.state))
           mks == SelectSeq(r.mks, LAMBDA m : m.pid = pid)
           newkeys == IF oldp.st = "absent" THEN {} ELSE { mks[i].t : i \in DOMAIN mks } \ DOMAIN oldp.ts
           mk(k) == mks[CHOOSE i \in DOMAIN mks : mks[i].t = k]
       IN
       [oldp EXCEPT
          !.ts = IF oldp.st = "absent" THEN <<>>
                 ELSE [k \in DOMAIN oldp.ts \cup newkeys |->
                         IF k \notin DOMAIN oldp.ts
                         \* a task this step created (creation probe): it is in no dump yet
                         THEN [NewTask(mk(k).prev, 1000 + mk(k).seq) EXCEPT
                                 !.st = IF lastw(k) = "-" THEN "none" ELSE lastw(k), !.data = "?",
                                 !.mcre = SatAdd(0, cntc(k)), !.mterm = SatAdd(0, cntt(k)),
                                 !.born = r.post.now]
                         ELSE
                         [oldp.ts[k] EXCEPT !.st = IF lastw(k) = "-" THEN @ ELSE lastw(k),
                                            !.data = "?",
                                            !.mcre = SatAdd(@, cntc(k)), !.mterm = SatAdd(@, cntt(k)),
                                            !.retn = SatAdd(@, IF r.a = "Return" /\ r.res = "ok" /\ r.pid = pid /\ r.t = k
                                                               THEN 1 ELSE 0),
                                            !.okterm = SatAdd(@, IF r.a = "Act" /\ r.res = "ok" /\ r.pid = pid /\ r.t = k
                                                                    /\ r.kind \in TerminalKinds /\ IsDone(lastw(k))
                                                                 THEN 1 ELSE 0)]],
          !.ps = IF pws = <<>> THEN @ ELSE pws[Len(pws)].new,
          !.ev = IF oldp.st = "absent" THEN [start |-> 0, term |-> 0, kinds |-> {}, first |-> NIL]
                 ELSE [start |-> SatAdd(@.start, starts), term |-> SatAdd(@.term, comps + errs),
                       kinds |-> @.kinds \cup (IF comps > 0 THEN {"complete"} ELSE {})
                                         \cup (IF errs > 0 THEN {"error"} ELSE {}),
                       first |-> IF @.first # NIL THEN @.first
                                 ELSE IF comps + errs = 0 THEN NIL
                                 ELSE SelectSeq(r.gens, LAMBDA g : g.pid = pid /\ g.what \in {"complete", "error"})[1].what],
          !.dirty = {}, !.cached = FALSE,
          !.pure = @ /\ ~(r.a = "Act" /\ r.pid = pid /\ r.res = "ok" /\ r.kind # "complete"),
          !.gone = IF oldp.st = "absent" THEN FALSE ELSE ~r.post.rows[pid].proc.exists /\ oldp.ts # <<>>,
                    !.rowsLeft = [proc |-> r.post.rows[pid].proc.exists, tasks |-> Len(r.post.rows[pid].tasks),
                                  open |-> Len(SelectSeq(r.post.rows[pid].tasks, LAMBDA x : ~IsDone(x.st)))]]
  ELSE LET oldts == IF oldp.st = "absent" THEN <<>> ELSE oldp.ts
           keys == { lp.tasks[i].k : i \in DOMAIN lp.tasks }
           rec(k) == lp.tasks[CHOOSE i \in DOMAIN lp.tasks : lp.tasks[i].k = k]
           starts == Count(r.gens, LAMBDA g : g.what = "start" /\ g.pid = pid)
           comps == Count(r.gens, LAMBDA g : g.what = "complete" /\ g.pid = pid)
           errs == Count(r.gens, LAMBDA g : g.what = "error" /\ g.pid = pid)
       IN [oldp EXCEPT
             !.ts = [k \in keys |-> LoadTask(pid, oldp.mi, r, rec(k),
                                             IF k \in DOMAIN oldts THEN oldts[k] ELSE NewTask(NoKey, 0),
                                             k \notin DOMAIN oldts, oldts)],
             !.ps = lp.ps, !.perr = lp.perr,
             !.nseq = Len(lp.tasks) + 1,
             !.ev = [start |-> SatAdd(@.start, starts), term |-> SatAdd(@.term, comps + errs),
                     kinds |-> @.kinds \cup (IF comps > 0 THEN {"complete"} ELSE {})
                                       \cup (IF errs > 0 THEN {"error"} ELSE {}),
                     first |-> IF @.first # NIL THEN @.first
                               ELSE LET te == SelectSeq(r.gens, LAMBDA g : g.pid = pid /\ g.what \in {"complete", "error"})
                                    IN IF te = <<>> THEN NIL ELSE te[1].what],
             !.viol = @ \cup BadWrites(pid, r, oldp),
             \* the calling act and the call's inputs of a child process: its root task holds them
             \* once it has run
             !.parent = IF "link" \in DOMAIN lp /\ lp.link.pid # NIL THEN lp.link ELSE @,
             !.inp = IF "link" \in DOMAIN lp /\ lp.link.pid # NIL THEN lp.inp ELSE @,
             !.dirty = ImageDiff(pid, r),
             !.gone = FALSE, !.cached = TRUE, !.env = lp.env,
             !.rowsLeft = [proc |-> r.post.rows[pid].proc.exists, tasks |-> Len(r.post.rows[pid].tasks),
                           open |-> Len(SelectSeq(r.post.rows[pid].tasks, LAMBDA x : ~IsDone(x.st)))],
             !.pure = @ /\ ~(r.a = "Act" /\ r.pid = pid /\ r.res = "ok" /\ r.kind # "complete")]

KeyOrNo(r) == IF "t" \in DOMAIN r THEN r.t ELSE NoKey

Label(r) ==
  IF r.a = "Advance" THEN [StepLabel("Advance", NIL, <<NIL, 0>>) EXCEPT !.opt = [d |-> r.d]] ELSE
  [a |-> r.a, pid |-> r.pid, t |-> KeyOrNo(r),
   kind |-> IF r.a \in {"Act", "Return"} THEN r.kind ELSE NIL,
   st |-> IF r.a \in {"Act", "Return"} /\ procs[r.pid].st # "absent" /\ r.t \in DOMAIN procs[r.pid].ts
          THEN procs[r.pid].ts[r.t].st ELSE IF r.a \in {"Act", "Return"} THEN "absent" ELSE NIL,
   opt |-> IF r.a \in {"Act", "Return"} THEN [ecode |-> r.opts.ecode, to |-> r.opts.to] ELSE NoOpt]

Str(v) == ToString(v)
Line(kind, v, r) ==
  "OBS|" \o kind \o "|" \o v.p \o "|" \o Str(sc) \o "|" \o Str(l) \o "|" \o Str(r.n) \o "|"
  \o v.pid \o "|" \o Str(v.t) \o "|" \o Str(v.kf)

(* KF_cache_thrash_instances: the cache holds processes by value; one that is evicted while   *)
(* work for it is still in flight on the engine's threads (ungated runs, cache_cap below the  *)
(* number of concurrently active processes) is loaded again on the next access and then       *)
(* exists twice: both instances see a step finish and both start its successor, or each       *)
(* misses what the other did (cache.rs:19-34, 69-89; nothing pins a process that is in use).  *)
(* KF_unsynchronised_process: nothing serialises the work on one process (the process-level   *)
(* mutex is commented out, process.rs:62,355; task.rs:61,385): on a multi-thread runtime a     *)
(* client action runs on the caller's thread while the scheduler thread executes tasks of the  *)
(* same process; both can review the same step (duplicate successor), or one finishes a task   *)
(* the other is working on.  Ungated runs on a multi-thread runtime are judged with this       *)
(* classifier; gated runs and current-thread runs are not.                                     *)
Report(VS, r) ==
  \A v \in VS :
    LET w == IF v.kf = {} /\ thrash # "" THEN [v EXCEPT !.kf = {thrash}] ELSE v
    IN PrintT(Line(IF w.kf = {} THEN "VIOLATION" ELSE "KNOWN", w, r))

ObsModel ==
  /\ l <= Len(Log) /\ Log[l].ev = "model"
  /\ l' = l + 1 /\ sc' = sc + 1 /\ seen' = {}
  /\ thrash' = LET x == Log[l].x IN
               IF "natural" \in DOMAIN x /\ "cap" \in DOMAIN x /\ "n" \in DOMAIN x /\ "rt" \in DOMAIN x
               THEN IF x.cap < x.n THEN "KF_cache_thrash_instances"
                    ELSE IF x.rt # "ct" /\ x.n > 1 THEN "KF_unsynchronised_process" ELSE ""
               ELSE ""
  /\ procs' = [p \in Pids |-> AbsentProc]
  /\ queue' = {} /\ spawn' = {}
  /\ budget' = MaxActions
  /\ lastOut' = <<>> /\ lastRes' = "-" /\ lastAct' = NoAct
  /\ now' = 0

ObsSub ==        \* another model of the bundle; the main one (which resets the scenario) follows
  /\ l <= Len(Log) /\ Log[l].ev = "submodel"
  /\ l' = l + 1 /\ sc' = sc + 1 /\ UNCHANGED <<vars, seen, thrash>>

ObsSkip ==
  /\ l <= Len(Log) /\ Log[l].ev \in {"end", "note"}
  /\ l' = l + 1 /\ UNCHANGED <<vars, sc, seen, thrash>>

ObsStep ==
  /\ l <= Len(Log) /\ Log[l].ev = "step"
  /\ l' = l + 1 /\ sc' = sc /\ thrash' = thrash
  /\ LET r == Log[l] IN
     /\ procs' = [pid \in Pids |->
                    IF pid \notin DOMAIN r.post.procs THEN procs[pid]
                    ELSE IF r.a = "StartCall" /\ r.pid = pid /\ r.res = "ok"
                    THEN LoadProc(pid, r, FreshProc(sc - (IF "mo" \in DOMAIN r THEN r.mo ELSE 0), r.inputs, NoParent))
                    ELSE IF r.a = "Burst" /\ \E i \in DOMAIN r.starts : r.starts[i].pid = pid /\ r.starts[i].res = "ok"
                    THEN LET s0 == r.starts[CHOOSE i \in DOMAIN r.starts : r.starts[i].pid = pid /\ r.starts[i].res = "ok"]
                         IN LoadProc(pid, r, FreshProc(sc - s0.mo, s0.inputs, NoParent))
                    \* a child process is first seen when it is launched: model, inputs and the
                    \* calling act as its root task holds them
                    ELSE IF procs[pid].st = "absent" \/ (procs[pid].gone /\ r.post.procs[pid].cached)
                    THEN IF r.post.procs[pid].cached /\ r.post.procs[pid].tasks # <<>>
                         THEN LoadProc(pid, r, FreshProc(FindModel(sc, r.post.procs[pid].mid),
                                                         r.post.procs[pid].inp, r.post.procs[pid].link))
                         ELSE procs[pid]
                    ELSE LoadProc(pid, r, procs[pid])]
     /\ queue' = UNION { { <<pid, r.post.procs[pid].q[i]>> : i \in DOMAIN r.post.procs[pid].q }
                         : pid \in { q \in DOMAIN r.post.procs : "q" \in DOMAIN r.post.procs[q] } }
     /\ spawn' = { IF r.post.jobs[i].kind = "return"
                    THEN [kind |-> "return", pid |-> r.post.jobs[i].pid, t |-> r.post.jobs[i].t]
                    ELSE [kind |-> r.post.jobs[i].kind, pid |-> r.post.jobs[i].pid] : i \in DOMAIN r.post.jobs }
     /\ budget' = budget
     /\ now' = r.post.now
     /\ lastOut' = [i \in DOMAIN r.gens |->
                      [what |-> r.gens[i].what, pid |-> r.gens[i].pid, t |-> r.gens[i].t,
                       nid |-> r.gens[i].nid, type |-> r.gens[i].type, state |-> r.gens[i].state]]
     /\ lastRes' = IF r.a \in {"Act", "Return", "StartCall"} THEN (IF r.res = "ok" THEN "ok" ELSE "err") ELSE "-"
     /\ lastAct' = Label(r)
     /\ LET \* (on observed states a rejected action may still reload an evicted process: what
            \* must not change is what the process IS, not the bookkeeping of this module)
            ObsRejectedIsNoop ==
              (lastRes' = "err" /\ lastAct'.a = "Act" /\ lastAct'.kind \in TerminalKinds)
                 => /\ \A q \in Pids : SameImage(procs'[q], procs[q])
                    /\ queue' = queue /\ spawn' = spawn /\ lastOut' = <<>>
            noop == (IF ObsRejectedIsNoop THEN {}
                     ELSE { V("C05_RejectedIsNoop", r.pid, KeyOrNo(r), {}) })
                    \cup (IF C05_LiveProcessStep THEN {}
                          ELSE { V("C05_LiveProcess", r.pid, KeyOrNo(r), {}) })
                    \cup (IF C19_TickKeepsStatesStep THEN {}
                          ELSE { V("C19_TickKeepsStates", "p1", NoKey, {}) })
                    \cup (IF C15_ReturnMatchesStep THEN {}
                          ELSE { V("C15_ReturnMatches", r.pid, KeyOrNo(r), {}) })
                    \cup (IF C13_OnlyOwnStep THEN {}
                          ELSE { V("C13_OnlyOwn", r.pid, KeyOrNo(r), {}) })
                    \cup (IF C13_DupRefusedStep THEN {}
                          ELSE { V("C13_DupRefused", r.pid, NoKey, {}) })
            \* a re-executed prefix (explore) was judged when it was first recorded
            new == IF r.pre THEN {} ELSE (AllV' \cup noop) \ seen
        IN /\ Report(new, r)
           /\ seen' = seen \cup new

ObsInit == Init /\ l = 1 /\ sc = 0 /\ seen = {} /\ thrash = ""
ObsNext == ObsModel \/ ObsSub \/ ObsSkip \/ ObsStep
ObsSpec == ObsInit /\ [][ObsNext]_ovars

ObsDone ==
  LET d == TLCGet("stats").diameter IN
  IF d - 1 = Len(Log) THEN PrintT("OBS|DONE|" \o ToString(Len(Log)))
  ELSE PrintT("OBS|STUCK|" \o ToString(d)) /\ FALSE
=============================================================================
