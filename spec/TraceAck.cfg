SPECIFICATION TSpec
CONSTANTS
  Ids = {1, 2}
  MaxRetry = 2
  Interval = 2
  MaxTime = 100000
  QueryMode = "sound"
POSTCONDITION TDone
CHECK_DEADLOCK FALSE
