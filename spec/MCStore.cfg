SPECIFICATION Spec
CONSTANT NIds = 2
INVARIANT CanonicalOK
INVARIANT Sorted
INVARIANT PagesPartition
INVARIANT WrongCountRejected
CHECK_DEADLOCK FALSE
