SPECIFICATION Spec
CONSTANTS
  Ids = {1, 2}
  MaxRetry = 2
  Interval = 2
  MaxTime = 10
  QueryMode = "sound"
INVARIANT StoredBeforeHandler
INVARIANT Bounded
PROPERTY Redelivery
PROPERTY SilentAfterAck
CHECK_DEADLOCK FALSE
