------------------------------- MODULE MCGlob -------------------------------
(* TLC check of Glob.tla / Channels.tla over small patterns and strings:     *)
(* the matcher agrees with the defining laws of the glob language.           *)
EXTENDS Channels, FiniteSets
Alpha == {"a", "b"}
Strs == UNION { [1..n -> Alpha] : n \in 0..3 }
Atoms == { [t |-> "lit", c |-> c] : c \in Alpha } \cup { [t |-> "any"], [t |-> "star"] }
         \cup { [t |-> "class", neg |-> b, set |-> <<"a">>] : b \in BOOLEAN }
Pats == UNION { [1..n -> Atoms] : n \in 0..2 }
VARIABLES p, q, s
Init == p \in Pats /\ q \in Pats /\ s \in Strs
Next == UNCHANGED <<p, q, s>>
Spec == Init /\ [][Next]_<<p, q, s>>
Lit(w) == [i \in DOMAIN w |-> [t |-> "lit", c |-> w[i]]]
Laws ==
  /\ Match(<<[t |-> "star"]>>, s)                                        \* * matches everything
  /\ (Match(Lit(s), s))                                                  \* a literal matches itself
  /\ (\A w \in Strs : Match(Lit(w), s) <=> w = s)                        \* ... and nothing else
  /\ (Match(<<[t |-> "alt", alts |-> <<p, q>>]>>, s) <=> (Match(p, s) \/ Match(q, s)))
  /\ (Match(p \o q, s) <=> \E k \in 0..Len(s) : Match(p, SubSeq(s, 1, k)) /\ Match(q, SubSeq(s, k + 1, Len(s))))
  /\ (Match(<<[t |-> "any"]>> \o p, s) <=> (s # <<>> /\ Match(p, Tail(s))))
  /\ (s # <<>> => (Match(<<[t |-> "class", neg |-> TRUE, set |-> <<"a">>]>>, <<Head(s)>>)
                   <=> ~Match(<<[t |-> "class", neg |-> FALSE, set |-> <<"a">>]>>, <<Head(s)>>)))
ChanLaws ==
  LET o1 == [type |-> p, state |-> <<[t |-> "star"]>>, tag |-> q, key |-> <<[t |-> "star"]>>, uses |-> <<[t |-> "star"]>>]
      o2 == [o1 EXCEPT !.type = q]
      m == [type |-> s, state |-> <<"a">>, tag |-> <<"b">>, mtag |-> s, key |-> <<>>, uses |-> <<>>]
      c1 == Register(<<>>, "c1", o1)
  IN /\ Receivers(Register(c1, "c1", o2), m) = Receivers(Register(<<>>, "c1", o2), m)   \* re-registering replaces
     /\ Receivers(Remove(Register(c1, "c2", o2), "c1"), m) = Receivers(Register(<<>>, "c2", o2), m)  \* closing one leaves the other
     /\ ("c1" \in Receivers(c1, m) <=> Match(p, s) /\ (Match(q, <<"b">>) \/ Match(q, s)))
=============================================================================
