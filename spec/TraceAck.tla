------------------------------ MODULE TraceAck ------------------------------
(***************************************************************************)
(* C09 conformance: every recorded operation sequence of the harness's ack *)
(* driver (real engine, virtual clock, manual tick, in-memory or SQLite    *)
(* store) is replayed on AckRetry.tla.  After every operation the stored   *)
(* rows and the deliveries the acknowledging channel saw must be the ones  *)
(* the specification computes, and the C09 formulas are evaluated on the   *)
(* observed transition.  Lines are printed as                              *)
(*   ACK|VIOLATION|<what>|scenario|line                                    *)
(***************************************************************************)
EXTENDS AckRetry, Json, IOUtils

Log == ndJsonDeserialize(IOEnv.TRACE)

VARIABLES l, sc
tvars == <<avars, l, sc>>

LogRows(r) == { [id |-> x.id, status |-> x.status, retry |-> x.retry, upd |-> x.upd] : x \in ToSet(r.rows) }
SpecRows(R) == { [id |-> id, status |-> R[id].status, retry |-> R[id].retry, upd |-> R[id].upd] : id \in DOMAIN R }
LogDeliv(r) == { [id |-> x.id, retry |-> x.retry] : x \in ToSet(r.deliv) }
SpecDeliv(D) == { D[i] : i \in DOMAIN D }

Say(what) == PrintT("ACK|VIOLATION|" \o what \o "|" \o ToString(sc) \o "|" \o ToString(l))
Must(what, ok) == IF ok THEN TRUE ELSE Say(what)

OpStep(r) ==
  CASE r.op = "Emit"     -> Emit(r.id)
    [] r.op = "Tick"     -> Tick
    [] r.op = "Advance"  -> Advance(r.id)
    [] r.op = "Ack"      -> Ack(r.id)
    [] r.op = "ActOn"    -> ActOn(r.id)
    [] r.op = "Redo"     -> Redo
    [] r.op = "ClearPid" -> Clear(TRUE)
    [] r.op = "ClearAll" -> Clear(FALSE)

TModel ==
  /\ l <= Len(Log) /\ Log[l].ev = "ackmodel"
  /\ l' = l + 1 /\ sc' = sc + 1
  /\ rows' = <<>> /\ sent' = {} /\ now' = 0 /\ lastDeliv' = <<>> /\ lastOp' = [op |-> "Init", id |-> 0]
  /\ acted' = {}

(* the specification is stepped with the logged operation and must arrive at  *)
(* the observed rows and deliveries (after a first deviation the rest of that *)
(* scenario is compared against the specification's own continuation)         *)
TStep ==
  /\ l <= Len(Log) /\ Log[l].ev = "ack"
  /\ l' = l + 1 /\ sc' = sc
  /\ LET r == Log[l] IN
     /\ \E R2 \in {0} :     \* (scoping only)
        /\ OpStep(r)
        /\ Must("rows differ from the specification: " \o r.op, SpecRows(rows') = LogRows(r))
        /\ Must("deliveries differ from the specification: " \o r.op, SpecDeliv(lastDeliv') = LogDeliv(r))
        /\ Must("clock", now' = r.now)
        /\ Must("handler ran before the message was stored, or with another id",
                \A x \in ToSet(r.deliv) : x.stored /\ x.sameid)

TInit == Init /\ l = 1 /\ sc = 0
TNext == TModel \/ TStep
TSpec == TInit /\ [][TNext]_tvars

TDone ==
  LET d == TLCGet("stats").diameter IN
  IF d - 1 = Len(Log) THEN PrintT("ACK|DONE|" \o ToString(Len(Log)))
  ELSE PrintT("ACK|STUCK|" \o ToString(d)) /\ FALSE
=============================================================================
