SPECIFICATION CSpec
POSTCONDITION CDone
CHECK_DEADLOCK FALSE
