-------------------------------- MODULE Data --------------------------------
(***************************************************************************)
(* Data flow (C07): the reference environment model.                       *)
(*                                                                         *)
(* Every name is declared (as an input) by at most one scope: the workflow *)
(* ("w": a, o), step s1 (b) or step s2 (c).  A write by a set act, a       *)
(* script ($set, returned object) or a client action to a name that an     *)
(* enclosing scope of the writer declares updates that scope; later        *)
(* readers inside the declaring scope see the last value written; a name   *)
(* is invisible outside the scope that declares it; the options of an      *)
(* action are cut down to the outputs the act declares; keys beginning     *)
(* with "__" stay in the task they were given to; the terminal event's     *)
(* outputs are the workflow's declared outputs with the last values.       *)
(* (task.rs:256-293, 1047-1082; process.rs:296-313; consts.rs:45-52;       *)
(* convert.rs:96-127; transform/set.rs, code.rs.)                          *)
(*                                                                         *)
(* A program is the flow-ordered list of its operations:                   *)
(*   w    scope n v          a write of the constant v to n                *)
(*   wx   scope n m d        n := m + d, m read where the writer stands    *)
(*   act  scope key opts outs  a client action with options opts on an     *)
(*                           interrupt that declares the outputs outs      *)
(*   r    scope key names    an interrupt whose inputs read the names      *)
(***************************************************************************)
EXTENDS Integers, Sequences, FiniteSets, TLC

Scopes == {"w", "s1", "s2"}
Decl == [w |-> {"a", "o"}, s1 |-> {"b"}, s2 |-> {"c"}]
Invisible == -1
Init(a0) == [w |-> [a |-> a0, o |-> 0], s1 |-> [b |-> 2], s2 |-> [c |-> 3]]
IsPrivate(n) == n = "__p"

(* the scope among {the writer's step, the workflow} that declares n, or "nil" *)
Holder(scope, n) == IF n \in Decl[scope] THEN scope ELSE IF n \in Decl["w"] THEN "w" ELSE "nil"
Read(env, scope, n) == LET h == Holder(scope, n) IN IF h = "nil" THEN Invisible ELSE env[h][n]
Write(env, scope, n, v) ==
  LET h == Holder(scope, n) IN
  IF IsPrivate(n) \/ h = "nil" THEN env ELSE [env EXCEPT ![h][n] = v]

RECURSIVE WriteAll(_, _, _, _)
WriteAll(env, scope, opts, outs) ==      \* opts: sequence of <<name, value>>
  IF opts = <<>> THEN env
  ELSE LET n == opts[1][1]  v == opts[1][2]
           allowed == outs = <<>> \/ \E i \in DOMAIN outs : outs[i] = n
       IN WriteAll(IF allowed THEN Write(env, scope, n, v) ELSE env, scope, Tail(opts), outs)

(* the run: [env, reads], reads: reader key -> [name -> value] *)
RECURSIVE Run(_, _, _)
Run(ops, env, reads) ==
  IF ops = <<>> THEN [env |-> env, reads |-> reads]
  ELSE LET o == Head(ops) IN
       CASE o.k = "w"   -> Run(Tail(ops), Write(env, o.scope, o.n, o.v), reads)
         [] o.k = "wx"  -> Run(Tail(ops), Write(env, o.scope, o.n, Read(env, o.scope, o.m) + o.d), reads)
         [] o.k = "act" -> Run(Tail(ops), WriteAll(env, o.scope, o.opts, o.outs), reads)
         [] o.k = "r"   -> Run(Tail(ops), env,
                               reads @@ (o.key :> [i \in DOMAIN o.names |-> Read(env, o.scope, o.names[i])]))
Expected(prog, a0) == Run(prog.ops, Init(a0), <<>>)

(* laws (checked by TLC over the family): read-your-writes, confinement *)
ReadYourWrites(prog, a0) ==
  \A i \in DOMAIN prog.ops : LET o == prog.ops[i] IN
    (o.k = "w" /\ Holder(o.scope, o.n) # "nil" /\ ~IsPrivate(o.n)) =>
      LET after == Run(SubSeq(prog.ops, 1, i), Init(a0), <<>>).env IN Read(after, o.scope, o.n) = o.v
Confined(prog, a0) ==
  LET e == Expected(prog, a0).env IN
  /\ DOMAIN e["s1"] = {"b"} /\ DOMAIN e["s2"] = {"c"} /\ DOMAIN e["w"] = {"a", "o"}
=============================================================================
