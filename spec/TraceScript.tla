----------------------------- MODULE TraceScript -----------------------------
(***************************************************************************)
(* C14 conformance: what the engine produced for every case, compared with *)
(* Script.tla.                                                             *)
(*   SCRIPT|VIOLATION|<what>|case|line                                     *)
(***************************************************************************)
EXTENDS Script, Json, IOUtils

Log == ndJsonDeserialize(IOEnv.TRACE)
VARIABLES l
Say(what, r) == PrintT("SCRIPT|VIOLATION|" \o what \o "|" \o ToString(r.case) \o "|" \o ToString(l))
Must(what, r, ok) == IF ok THEN TRUE ELSE Say(what, r)

SHead == /\ l <= Len(Log) /\ Log[l].ev = "scriptmodel" /\ l' = l + 1
STpl ==
  /\ l <= Len(Log) /\ Log[l].ev = "tpl" /\ l' = l + 1
  /\ LET r == Log[l] exp == Fill(r.segs) IN
     /\ Must("the text of the case is not the text of its segments (harness)", r, r.text = ParamText(r.segs))
     /\ IF ~HasTpl(r.segs)
        THEN Must("a string without templates was not passed through verbatim", r, r.obs = exp)
        ELSE IF Len(r.segs) = 1
        THEN Must("a string that is exactly one template did not yield the typed value", r, r.obs = exp)
        ELSE Must("templates of one string were not each evaluated and substituted", r, r.obs = exp)
SVal ==
  /\ l <= Len(Log) /\ Log[l].ev = "val" /\ l' = l + 1
  /\ LET r == Log[l] IN
     Must("a value changed across the script boundary (" \o r.route \o ")", r, r.out = Through(r.route, r.in))
SInit == l = 1
SNext == SHead \/ STpl \/ SVal
SSpec == SInit /\ [][SNext]_l
SDone ==
  LET d == TLCGet("stats").diameter IN
  IF d - 1 = Len(Log) THEN PrintT("SCRIPT|DONE|" \o ToString(Len(Log)))
  ELSE PrintT("SCRIPT|STUCK|" \o ToString(d)) /\ FALSE
=============================================================================
