------------------------------ MODULE TraceData ------------------------------
(* C07 conformance: what the readers saw, what the terminal event carried and  *)
(* where the private key ended up, for two interleaved processes of the same   *)
(* program with different start values, against Data.tla.                      *)
(*   DATA|VIOLATION|<what>|scenario|line                                       *)
EXTENDS Data, Json, IOUtils, TLC
Log == ndJsonDeserialize(IOEnv.TRACE)
VARIABLES l
ToSet(s) == { s[i] : i \in DOMAIN s }
Say(what) == PrintT("DATA|VIOLATION|" \o what \o "|" \o ToString(l) \o "|" \o ToString(l))
Must(what, ok) == IF ok THEN TRUE ELSE Say(what)

CheckProc(r, p, a0) ==
  LET E == Expected(r.dprog, a0) IN
  /\ Must("the process did not finish", p.ps = "completed")
  /\ \A key \in DOMAIN E.reads :
       LET obs == { x \in ToSet(p.reads) : x.key = key } IN
       /\ Must("a reader was not opened exactly once", Cardinality(obs) = 1)
       /\ \A x \in obs : \A i \in DOMAIN x.names :
            Must("a reader did not see the last value written to a name its scope declares (or saw a name from outside its scope): " \o x.names[i],
                 x.vals[i] = E.reads[key][i])
  /\ Must("the terminal event's outputs are not the declared output keys (plus data)", ToSet(p.outkeys) \ {"data"} = {"a", "o"})
  /\ Must("the terminal event's outputs do not carry the last values written",
          p.out_a = E.env["w"]["a"] /\ p.out_o = E.env["w"]["o"])
  /\ Must("a private key left the task it was given to (or never arrived there)",
          ToSet(p.priv) = { o.aid : o \in { x \in ToSet(r.dprog.ops) :
                                                         x.k = "act" /\ \E i \in DOMAIN x.opts : IsPrivate(x.opts[i][1]) } })

DStep ==
  /\ l <= Len(Log) /\ l' = l + 1
  /\ LET r == Log[l] IN
     IF r.ev # "data" THEN TRUE
     ELSE /\ CheckProc(r, r.p1, 1)
          /\ CheckProc(r, r.p2, 100)      \* ... and nothing crossed between the two
DSpec == l = 1 /\ [][DStep]_l
DDone ==
  LET d == TLCGet("stats").diameter IN
  IF d - 1 = Len(Log) THEN PrintT("DATA|DONE|" \o ToString(Len(Log)))
  ELSE PrintT("DATA|STUCK|" \o ToString(d)) /\ FALSE
=============================================================================
