------------------------------ MODULE TraceGen ------------------------------
(***************************************************************************)
(* C16 conformance: the quiescent observations of the harness's gen driver *)
(* (random release order of the engine's internal tasks) against Gen.tla.  *)
(*   GEN|VIOLATION|<what>|scenario|line                                    *)
(***************************************************************************)
EXTENDS Gen, Json, IOUtils, TLC, Integers

Log == ndJsonDeserialize(IOEnv.TRACE)
VARIABLES l, sc, prog, D, pushed
gvars == <<l, sc, prog, D, pushed>>
ToSet(s) == { s[i] : i \in DOMAIN s }
Say(what) == PrintT("GEN|VIOLATION|" \o what \o "|" \o ToString(sc) \o "|" \o ToString(l))
Must(what, ok) == IF ok THEN TRUE ELSE Say(what)

RECURSIVE PathText(_)
PathText(p) == IF p = <<>> THEN "" ELSE ToString(p[1]) \o (IF Len(p) > 1 THEN "." \o PathText(Tail(p)) ELSE "")
Last(p) == IF p = <<>> THEN -1 ELSE p[Len(p)]
ValueOf(p) == IF p = <<>> THEN "nil" ELSE "u" \o ToString(Last(p))
Count(r, key) == LET H == { h \in ToSet(r.hooks) : h.key = key } IN IF H = {} THEN 0 ELSE (CHOOSE h \in H : TRUE).n

(* every observation is the function of (Done, pushed) that Gen.tla defines *)
(* KF_step_created_hook_late: the act fired by a step's own `created` hook hangs off the   *)
(* step; Step::next / Step::review count it as a child to wait for, but a hook act never   *)
(* reviews its parent when it finishes (task.rs:935).  When the step's own acts are done   *)
(* before the hook act has run (any schedule but first-in-first-out), the step stays       *)
(* running for ever.                                                                       *)
LateStepHook(r, P, DD, PU) ==
  "created" \in ToSet(P.hs) /\ StepDone(P, DD, PU) /\ r.step = "running" /\ r.open = <<>>
Known(what) == PrintT("GEN|KNOWN|" \o what \o "|" \o ToString(sc) \o "|" \o ToString(l))

(* KF_push_review_closes_step: a pushed act hangs directly off the step; when it finishes it  *)
(* reviews the step, and Step::review counts only the tasks that hang directly off the step   *)
(* (the first act of its sequence and the pushed ones), not the acts further down the         *)
(* sequence (step.rs:96-128, process.rs children): the step - and the process - finish over   *)
(* interrupts that are still open.  Same root as KF_step_timeout_review.                      *)
ClosedByPush(r, P, DD, PU) ==
  (\E k \in PU : <<k, <<>>>> \in DD) /\ ~StepDone(P, DD, PU) /\ r.step = "completed"

Check(r, P, DD, PU) ==
  IF LateStepHook(r, P, DD, PU) THEN Known("KF_step_created_hook_late") ELSE
  IF ClosedByPush(r, P, DD, PU) THEN Known("KF_push_review_closes_step") ELSE
  /\ Must("the engine did not come to rest", ~r.stuck)
  /\ Must("the open interrupts are not the ones the generators define (parallel: every group at once; sequence: one group after another, in list order)",
          { <<o.key, o.path>> : o \in ToSet(r.open) } = StepOpen(P, DD, PU))
  /\ Must("an interrupt is open more than once", Len(r.open) = Cardinality({ <<o.key, o.path>> : o \in ToSet(r.open) }))
  /\ Must("a group does not see its own index and value",
          \A o \in ToSet(r.open) : o.index = Last(o.path) /\ o.value = ValueOf(o.path))
  /\ Must("a generator has not opened one group per element",
          { <<g.g, g.n>> : g \in ToSet(r.groups) }
          = { <<G.key \o "/" \o PathText(G.path), G.n>> : G \in { y \in GensIn(P.acts, "seq", <<>>, DD) : y.n > 0 } })
  /\ Must("the step / the process is finished exactly when every generated and pushed act is",
          (r.step = "completed") = StepDone(P, DD, PU) /\ (r.ps = "completed") = StepDone(P, DD, PU))
  /\ \A on \in ToSet(P.hs) :
       Must("a step hook (" \o on \o ") did not fire once per matching event", Count(r, "h_s_" \o on) = Fired(P, DD, PU, on))
  /\ \A on \in ToSet(P.hw) :
       Must("a workflow hook (" \o on \o ") did not fire once per matching event", Count(r, "h_w_" \o on) = Fired(P, DD, PU, on))
  /\ \A key \in {"k1"} : \A on \in {"created", "completed"} :
       Must("an act hook (" \o on \o ") did not fire once per matching event",
            Count(r, "h_" \o key \o "_" \o on) = (IF on \in ToSet(P.hk) THEN FiredKey(P, DD, key, on) ELSE 0))
  /\ Must("a pushed act is not there exactly once",
          \A k \in PU : \E a \in ToSet(r.acts) : a.key = k /\ a.n = 1)

GModel == /\ l <= Len(Log) /\ Log[l].ev = "genmodel"
          /\ l' = l + 1 /\ sc' = sc + 1 /\ prog' = Log[l].prog /\ D' = {} /\ pushed' = {}
GSkip == /\ l <= Len(Log) /\ Log[l].ev = "note" /\ l' = l + 1 /\ UNCHANGED <<sc, prog, D, pushed>>
GStep ==
  /\ l <= Len(Log) /\ Log[l].ev = "gen"
  /\ l' = l + 1 /\ sc' = sc /\ prog' = prog
  /\ LET r == Log[l] IN
     CASE r.op.a = "Start" -> /\ D' = {} /\ pushed' = {} /\ Check(r, prog, {}, {})
       [] r.op.a = "Complete" ->
            /\ D' = D \cup {<<r.op.key, r.op.path>>} /\ pushed' = pushed
            /\ Must("completing an open interrupt was refused", r.op.res = "ok")
            /\ Check(r, prog, D \cup {<<r.op.key, r.op.path>>}, pushed)
       [] r.op.a = "Push" ->
            /\ D' = D /\ pushed' = IF r.op.res = "ok" THEN pushed \cup {r.op.key} ELSE pushed
            /\ Must("pushing into an open step was refused", r.op.res = "ok")
            /\ Check(r, prog, D, IF r.op.res = "ok" THEN pushed \cup {r.op.key} ELSE pushed)
GInit == l = 1 /\ sc = 0 /\ prog = <<>> /\ D = {} /\ pushed = {}
GNext == GModel \/ GSkip \/ GStep
GSpec == GInit /\ [][GNext]_gvars
GDone ==
  LET d == TLCGet("stats").diameter IN
  IF d - 1 = Len(Log) THEN PrintT("GEN|DONE|" \o ToString(Len(Log)))
  ELSE PrintT("GEN|STUCK|" \o ToString(d)) /\ FALSE
=============================================================================
