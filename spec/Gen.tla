-------------------------------- MODULE Gen --------------------------------
(***************************************************************************)
(* Generated acts, lifecycle hooks and push (C16).                         *)
(*                                                                         *)
(* Transcribed from package/core/parallel.rs, sequence.rs, block.rs,       *)
(* context.rs (build_acts, dispatch_acts, dispatch_act), tree/build.rs     *)
(* (dyn_build_act), task/act.rs (Act::next) and task.rs (run_hooks).       *)
(*                                                                         *)
(* A program is the act list of one step:                                  *)
(*   irq  [k |-> "irq", key, hooks]        an interrupt; hooks: the `on`   *)
(*                                         events of its own setup acts    *)
(*   par  [k |-> "par", key, n, items]     acts.core.parallel over n       *)
(*   seq  [k |-> "seq", key, n, items]     acts.core.sequence over n       *)
(*   blk  [k |-> "blk", key, mode, items]  acts.core.block                 *)
(* plus the `on` events of the hook acts of the step (hs) and of the       *)
(* workflow (hw).  The acts of a step, and of a group, run one after       *)
(* another; a generator opens one group (a sequence block) per element of  *)
(* its list: all at once (parallel), or each after the one before has      *)
(* finished (sequence); group i sees $index = i and $value = element i.    *)
(*                                                                         *)
(* The only things a client does are completing open interrupts and        *)
(* pushing interrupts into the open step, so everything observable is a    *)
(* FUNCTION of the set Done of completed interrupt instances <<key, path>> *)
(* (path: the indices of the enclosing groups, outermost first) and of the *)
(* pushed keys - whatever the schedule of the engine's internal tasks.     *)
(***************************************************************************)
EXTENDS Naturals, Sequences, FiniteSets

RECURSIVE ItemDone(_, _, _), ItemsDone(_, _, _)
ItemsDone(items, path, D) == \A j \in DOMAIN items : ItemDone(items[j], path, D)
ItemDone(it, path, D) ==
  CASE it.k = "irq" -> <<it.key, path>> \in D
    [] it.k = "msg" -> TRUE                       \* a message act finishes by itself
    [] it.k \in {"par", "seq"} -> \A i \in 0..(it.n - 1) : ItemsDone(it.items, Append(path, i), D)
    [] it.k = "blk" -> ItemsDone(it.items, path, D)

(* the items of a list that have been started: all of them (parallel block), *)
(* or every one whose predecessors are done (sequence)                       *)
Started(items, mode, path, D) ==
  IF mode = "par" THEN DOMAIN items
  ELSE { j \in DOMAIN items : \A i \in 1..(j - 1) : ItemDone(items[i], path, D) }
(* the groups of a generator that have been opened *)
Groups(it, path, D) ==
  IF it.k = "par" THEN 0..(it.n - 1)
  ELSE { i \in 0..(it.n - 1) : \A h \in 0..(i - 1) : ItemsDone(it.items, Append(path, h), D) }

(* open interrupts of a started item *)
RECURSIVE Open(_, _, _), OpenIn(_, _, _, _)
OpenIn(items, mode, path, D) == UNION { Open(items[j], path, D) : j \in Started(items, mode, path, D) }
Open(it, path, D) ==
  CASE it.k = "irq" -> IF <<it.key, path>> \in D THEN {} ELSE {<<it.key, path>>}
    [] it.k = "msg" -> {}
    [] it.k \in {"par", "seq"} -> UNION { OpenIn(it.items, "seq", Append(path, i), D) : i \in Groups(it, path, D) }
    [] it.k = "blk" -> OpenIn(it.items, it.mode, path, D)

(* act tasks that have reached a created state / a final state (the item     *)
(* itself, the groups a generator has opened, everything started inside)     *)
RECURSIVE NStarted(_, _, _), NStartedIn(_, _, _, _), NDone(_, _, _), NDoneIn(_, _, _, _)
Sum(f, S) == LET RECURSIVE Acc(_) Acc(T) == IF T = {} THEN 0 ELSE LET x == CHOOSE y \in T : TRUE IN f[x] + Acc(T \ {x}) IN Acc(S)
NStartedIn(items, mode, path, D) ==
  LET S == Started(items, mode, path, D) IN Sum([j \in S |-> NStarted(items[j], path, D)], S)
NStarted(it, path, D) ==
  CASE it.k \in {"irq", "msg"} -> 1
    [] it.k \in {"par", "seq"} ->
         LET G == Groups(it, path, D) IN 1 + Sum([i \in G |-> 1 + NStartedIn(it.items, "seq", Append(path, i), D)], G)
    [] it.k = "blk" -> 1 + NStartedIn(it.items, it.mode, path, D)
NDoneIn(items, mode, path, D) ==
  LET S == Started(items, mode, path, D) IN Sum([j \in S |-> NDone(items[j], path, D)], S)
NDone(it, path, D) ==
  CASE it.k = "irq" -> IF <<it.key, path>> \in D THEN 1 ELSE 0
    [] it.k = "msg" -> 1
    [] it.k \in {"par", "seq"} ->
         LET G == Groups(it, path, D) IN
         (IF ItemDone(it, path, D) THEN 1 ELSE 0)
         + Sum([i \in G |-> (IF ItemsDone(it.items, Append(path, i), D) THEN 1 ELSE 0)
                            + NDoneIn(it.items, "seq", Append(path, i), D)], G)
    [] it.k = "blk" -> (IF ItemDone(it, path, D) THEN 1 ELSE 0) + NDoneIn(it.items, it.mode, path, D)

(* instances of interrupt `key` started / done, for the hooks of the interrupt itself *)
RECURSIVE KeyStarted(_, _, _, _), KeyStartedIn(_, _, _, _, _)
KeyStartedIn(items, mode, path, D, key) ==
  UNION { KeyStarted(items[j], path, D, key) : j \in Started(items, mode, path, D) }
KeyStarted(it, path, D, key) ==
  CASE it.k \in {"irq", "msg"} -> IF it.key = key THEN {<<key, path>>} ELSE {}
    [] it.k \in {"par", "seq"} -> UNION { KeyStartedIn(it.items, "seq", Append(path, i), D, key) : i \in Groups(it, path, D) }
    [] it.k = "blk" -> KeyStartedIn(it.items, it.mode, path, D, key)

(* generator instances that have been started, with the groups they have opened *)
RECURSIVE Gens(_, _, _), GensIn(_, _, _, _)
GensIn(items, mode, path, D) == UNION { Gens(items[j], path, D) : j \in Started(items, mode, path, D) }
Gens(it, path, D) ==
  CASE it.k \in {"irq", "msg"} -> {}
    [] it.k \in {"par", "seq"} ->
         {[key |-> it.key, path |-> path, n |-> Cardinality(Groups(it, path, D))]}
         \cup UNION { GensIn(it.items, "seq", Append(path, i), D) : i \in Groups(it, path, D) }
    [] it.k = "blk" -> GensIn(it.items, it.mode, path, D)

-----------------------------------------------------------------------------
(* the step: its acts in sequence, plus what was pushed into it *)
StepOpen(prog, D, pushed) == OpenIn(prog.acts, "seq", <<>>, D) \cup { <<k, <<>>>> : k \in { x \in pushed : <<x, <<>>>> \notin D } }
StepDone(prog, D, pushed) == ItemsDone(prog.acts, <<>>, D) /\ \A k \in pushed : <<k, <<>>>> \in D
ActsStarted(prog, D, pushed) == NStartedIn(prog.acts, "seq", <<>>, D) + Cardinality(pushed)
ActsDone(prog, D, pushed) == NDoneIn(prog.acts, "seq", <<>>, D) + Cardinality({ k \in pushed : <<k, <<>>>> \in D })

(* how often the hook act bound to `on` on the step / the workflow has fired   *)
(* (task.rs:702-759): created and completed with the task itself, before_update *)
(* and updated with every act below that reaches a created / a final state,     *)
(* step with the step's own end                                                  *)
Fired(prog, D, pushed, on) ==
  CASE on = "created" -> 1
    [] on = "completed" -> IF StepDone(prog, D, pushed) THEN 1 ELSE 0
    [] on = "step" -> IF StepDone(prog, D, pushed) THEN 1 ELSE 0
    [] on = "before_update" -> ActsStarted(prog, D, pushed)
    [] on = "updated" -> ActsDone(prog, D, pushed)
(* ... and of a hook on the interrupt `key` *)
FiredKey(prog, D, key, on) ==
  LET S == KeyStartedIn(prog.acts, "seq", <<>>, D, key) IN
  IF on = "created" THEN Cardinality(S) ELSE Cardinality(S \cap D)

(* C16 as laws of these functions (checked by TLC over the programs of the family): *)
(* nothing is open twice or after it is done; as long as the step is not done some  *)
(* interrupt is open (no generator hangs, the empty list included); a generator has *)
(* opened at most n groups, a parallel one all of them                              *)
Laws(prog, D, pushed) ==
  /\ StepOpen(prog, D, pushed) \cap D = {}
  /\ (StepDone(prog, D, pushed) <=> StepOpen(prog, D, pushed) = {})
  /\ ActsDone(prog, D, pushed) <= ActsStarted(prog, D, pushed)
  /\ (StepDone(prog, D, pushed) => ActsDone(prog, D, pushed) = ActsStarted(prog, D, pushed))
=============================================================================
