----------------------------- MODULE StoreQuery -----------------------------
(***************************************************************************)
(* The store contract (C10): a collection is a function id -> record over  *)
(* an abstract schema (two string columns s1 s2, two integer columns n1    *)
(* n2); what create / update / delete / find do to it, and what a query    *)
(* must answer.  One semantics for every backend and every collection.     *)
(*                                                                         *)
(* A query: conds (all of them must hold), each an AND or an OR over       *)
(* expressions (column, operator, value); order keys with a direction;     *)
(* offset and limit.  The answer: the matching records ordered by the keys *)
(* (numbers numerically), paged, with the TOTAL number of matches.         *)
(***************************************************************************)
EXTENDS Integers, Sequences, FiniteSets, TLC, SequencesExt

Col(r, f) == CASE f = "s1" -> r.s1 [] f = "s2" -> r.s2 [] f = "n1" -> r.n1 [] f = "n2" -> r.n2
               [] f = "id" -> r.id

ExprHolds(r, e) ==
  IF e.f \in {"s1", "s2"}
  THEN CASE e.op = "eq" -> Col(r, e.f) = e.s
         [] e.op = "ne" -> Col(r, e.f) # e.s
  ELSE CASE e.op = "eq" -> Col(r, e.f) =  e.n
         [] e.op = "ne" -> Col(r, e.f) #  e.n
         [] e.op = "lt" -> Col(r, e.f) <  e.n
         [] e.op = "le" -> Col(r, e.f) <= e.n
         [] e.op = "gt" -> Col(r, e.f) >  e.n
         [] e.op = "ge" -> Col(r, e.f) >= e.n

CondHolds(r, c) ==
  IF c.or THEN \E i \in DOMAIN c.exprs : ExprHolds(r, c.exprs[i])
  ELSE \A i \in DOMAIN c.exprs : ExprHolds(r, c.exprs[i])

Matches(db, q) == { id \in DOMAIN db : \A i \in DOMAIN q.conds : CondHolds(db[id], q.conds[i]) }

(* strings of the driver's vocabulary and ids x1..x5 compare alphabetically *)
StrRank(s) == CASE s = "a" -> 1 [] s = "b" -> 2 [] s = "c" -> 3 [] s = "x1" -> 1 [] s = "x2" -> 2
                [] s = "x3" -> 3 [] s = "x4" -> 4 [] s = "x5" -> 5 [] OTHER -> 0
KeyVal(r, k) == IF k \in {"n1", "n2"} THEN Col(r, k) ELSE StrRank(Col(r, k))

(* r1 strictly before r2 under the order keys (lexicographic, per-key direction) *)
RECURSIVE Before(_, _, _, _)
Before(r1, r2, order, i) ==
  IF i > Len(order) THEN FALSE
  ELSE LET a == KeyVal(r1, order[i].k)  b == KeyVal(r2, order[i].k) IN
       IF a = b THEN Before(r1, r2, order, i + 1)
       ELSE IF order[i].rev THEN a > b ELSE a < b

KeyTuple(r, order) == [i \in DOMAIN order |-> KeyVal(r, order[i].k)]

(* the sequence of key tuples an ordered answer must show at positions          *)
(* offset+1 .. offset+limit: ties may come in any order, their key tuples not   *)
SortedIds(db, q) == SortSeq(SetToSeq(Matches(db, q)), LAMBDA x, y : Before(db[x], db[y], q.order, 1))
Window(s, offset, limit) ==
  IF offset >= Len(s) THEN <<>>
  ELSE SubSeq(s, offset + 1, IF offset + limit > Len(s) THEN Len(s) ELSE offset + limit)
ExpectedKeys(db, q) ==
  LET w == Window(SortedIds(db, q), q.offset, q.limit) IN [i \in DOMAIN w |-> KeyTuple(db[w[i]], q.order)]
ExpectedLen(db, q) == Len(Window(SortedIds(db, q), q.offset, q.limit))

(* is `ids` a right answer to q on db, `count` the right total *)
AnswerOK(db, q, ids, count) ==
  /\ count = Cardinality(Matches(db, q))
  /\ Len(ids) = ExpectedLen(db, q)
  /\ \A i \in DOMAIN ids : ids[i] \in Matches(db, q)
  /\ \A i, j \in DOMAIN ids : i # j => ids[i] # ids[j]
  /\ [i \in DOMAIN ids |-> KeyTuple(db[ids[i]], q.order)] = ExpectedKeys(db, q)
=============================================================================
