SPECIFICATION Spec
CONSTANTS
  Models <- MCModels
  InputSets <- MCInputSets
  Pids = {"p1"}
  TopPids = {"p1"}
  StartAny = FALSE
  MaxActions = 1
  ActionKinds = {"complete", "submit", "remove", "skip", "error", "abort", "back", "cancel"}
  ErrCodes = {"e1", "e2"}
  Deviations = {}
  SharedCatchPrev = FALSE
  AdvSet = {}
  MaxTime = 0
  Keep = TRUE
  WithEvict = FALSE
  Grid = {0}
  MaxInst = 2
VIEW View
INVARIANT C01_QuiescentOK
INVARIANT C02_Lifecycle
INVARIANT C03_ParentDone
INVARIANT C03_ProcMirrorsRoot
INVARIANT C03_Events
INVARIANT C03_TerminalEvent
INVARIANT C03_CleanEnding
INVARIANT C05_Admission
INVARIANT C05_TerminalRejected
INVARIANT C05_AtMostOnce
INVARIANT C05_NoDupSuccessor
INVARIANT C06_Propagates
INVARIANT C06_CatchMatches
INVARIANT C06_CatchStepsOnce
INVARIANT C06_CaughtCompletes
INVARIANT C08_AtMostOne
INVARIANT C08_CreatedFirst
INVARIANT C08_TerminalReported
INVARIANT C08_BranchSilent
INVARIANT C08_MsgAct
INVARIANT C08_ParentFirst
PROPERTY C05_RejectedIsNoop
INVARIANT C04_Outcome
INVARIANT C04_Order
INVARIANT DBG_FewInstances
CONSTRAINT InstBound
CHECK_DEADLOCK FALSE
