SPECIFICATION Spec
CONSTANT SharedCatchPrev = FALSE
CONSTANT SharedCatchPrevMC = FALSE
INVARIANT WellFormed
CHECK_DEADLOCK FALSE
