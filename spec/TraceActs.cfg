SPECIFICATION TraceSpec
CONSTANTS
  Models <- TraceModels
  InputSets <- TraceInputSets
  Pids = {"p1", "p2", "p3", "p4", "p5", "p6", "p7", "p8", "p9", "p10", "p11", "p12", "p13", "p14", "p15", "p16", "c1", "d1", "g1"}
  TopPids = {"p1"}
  StartAny = FALSE
  MaxActions = 100000
  ActionKinds = {"complete"}
  ErrCodes = {"e1", "e2"}
  Deviations = {}
  SharedCatchPrev = FALSE
  AdvSet = {1}
  MaxTime = 0
  Keep = TRUE
  WithEvict = TRUE
POSTCONDITION TraceAccepted
CHECK_DEADLOCK FALSE
