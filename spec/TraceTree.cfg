SPECIFICATION TSpec
CONSTANTS
  Models <- TraceModels
  InputSets <- TraceInputSets
  Pids = {"p1"}
  TopPids = {"p1"}
  StartAny = FALSE
  MaxActions = 0
  ActionKinds = {"complete"}
  ErrCodes = {"e1"}
  Deviations = {}
  SharedCatchPrev = FALSE
  AdvSet = {}
  MaxTime = 0
  Keep = TRUE
  WithEvict = TRUE
POSTCONDITION TDone
CHECK_DEADLOCK FALSE
