SPECIFICATION DSpec
POSTCONDITION DDone
CHECK_DEADLOCK FALSE
