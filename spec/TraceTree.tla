----------------------------- MODULE TraceTree -----------------------------
(***************************************************************************)
(* C20 conformance, tree and serialisation half: for every model of the    *)
(* family the engine's node tree must be the table Tree.tla computes (or   *)
(* both reject the model), the table must be well formed with respect to   *)
(* the model, and the model must survive YAML / JSON round trips.          *)
(*   TREE|VIOLATION|<what>|model index|name                                *)
(***************************************************************************)
EXTENDS TraceActs

VARIABLE i
Say(what, r) == PrintT("TREE|VIOLATION|" \o what \o "|" \o ToString(i) \o "|" \o r.name)
Must(what, ok, r) == IF ok THEN TRUE ELSE Say(what, r)

SameTree(j, r) ==
  LET T == Trees[j] IN
  IF T.err THEN ~r.tree.ok
  ELSE r.tree.ok /\ SpecTree(T) = LogTree(r.tree.nodes)

TStep ==
  /\ i <= Len(Log) /\ i' = i + 1
  /\ LET r == Log[i] IN
     /\ Must("engine tree differs from Tree.tla", SameTree(i, r), r)
     /\ Must("Tree.tla table is not well formed for the model", TreeWellFormed(TraceModels[i]), r)
     /\ Must("model does not survive the YAML/JSON round trip", r.tree.roundtrip, r)
     /\ Must("the parsed model lost a value of its text", r.tree.keeps, r)
  /\ UNCHANGED <<vars, l, sc>>

TInit == TraceInit /\ i = 1
TSpec == TInit /\ [][TStep]_<<vars, l, sc, i>>
TDone ==
  LET d == TLCGet("stats").diameter IN
  IF d - 1 = Len(Log) THEN PrintT("TREE|DONE|" \o ToString(Len(Log)))
  ELSE PrintT("TREE|STUCK|" \o ToString(d)) /\ FALSE
=============================================================================
