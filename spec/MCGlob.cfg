SPECIFICATION Spec
INVARIANT Laws
INVARIANT ChanLaws
CHECK_DEADLOCK FALSE
