SPECIFICATION Spec
CONSTRAINT Bound
INVARIANT VersionCounts
INVARIANT EventsOfDeployed
CHECK_DEADLOCK FALSE
