------------------------------- MODULE Script -------------------------------
(***************************************************************************)
(* The script boundary and parameter templates (C14).                      *)
(*                                                                         *)
(* Transcribed from utils/convert.rs (fill_params, get_exprs) and          *)
(* env/value.rs (into_js / from_js).  A JSON value is represented by its   *)
(* canonical text (sorted keys, numbers by value): TLC has neither 64-bit  *)
(* integers nor floats, and the statement of C14 is about identity, so     *)
(* text equality is the whole of the value semantics that is needed here.  *)
(*                                                                         *)
(* A parameter string is a sequence of segments, literal text or a         *)
(* template {{ expr }}; the expressions come from the table Exprs, which   *)
(* gives for each its JS source, the type and canonical text of its value  *)
(* under the environment EnvText, and the text it contributes when it is   *)
(* embedded in a longer string.                                            *)
(***************************************************************************)
EXTENDS Naturals, Sequences, TLC

(* ------------------------------ values --------------------------------- *)
(* json -> js, js -> json: a workflow variable is the same value on both   *)
(* sides (env/value.rs:26-150)                                             *)
Enter(v) == v
Leave(v) == v

(* the ways a value travels in the conformance cases                       *)
Routes == { "global_return",   \* injected as a global, returned by acts.transform.code
            "get_set",         \* $get(name) then $set(other, value)
            "stringify",       \* JSON.stringify of the global: what the script sees
            "literal",         \* a literal of the script, returned: what the store gets
            "cond",            \* a branch condition comparing the global with the literal
            "typed_input",     \* an input that is exactly one template
            "typed_param" }    \* a parameter that is exactly one template

Through(route, v) ==
  CASE route = "stringify" -> Enter(v)
    [] route = "literal"   -> Leave(v)
    [] route = "cond"      -> Enter(v)
    [] OTHER               -> Leave(Enter(v))

(* value shapes: the leaves are classes of scalars, instantiated by the    *)
(* harness with every boundary value of the class                          *)
LeafClasses == { "null", "true", "false", "zero", "small", "neg", "i31max", "i31min", "i32", "i32n", "i33",
                 "i53", "i53n", "flt", "fltneg", "fltbig", "fltsmall", "sempty", "sascii", "suni", "squote" }
Leaf(c) == [t |-> "leaf", c |-> c]
D0 == { Leaf(c) : c \in LeafClasses }
Composite(S) == { [t |-> "arr", items |-> <<>>], [t |-> "obj", items |-> <<>>] }
                \cup { [t |-> k, items |-> <<a>>] : k \in {"arr", "obj"}, a \in S }
D1Pairs == { [t |-> k, items |-> <<a, b>>] : k \in {"arr", "obj"}, a \in D0, b \in { Leaf("i33"), Leaf("suni"), Leaf("null") } }
D1 == D0 \cup Composite(D0) \cup D1Pairs
D2 == D1 \cup Composite(D1 \ D0)

(* ----------------------------- templates ------------------------------- *)
(* name -> [src: JS source, t: type of the value, j: canonical text of the *)
(* value, d: text contributed inside a longer string (convert.rs:27-40:    *)
(* booleans and numbers by to_string, strings raw, the rest as JSON text)] *)
EnvText == "{\"n\":7,\"big\":3000000000,\"f\":1.5,\"b\":true,\"s\":\"ab\",\"u\":\"h\\u00e9 \\u2713\",\"z\":null,\"a\":[1,\"x\"],\"o\":{\"k\":1},\"e\":\"\"}"
Exprs ==
  [ n   |-> [src |-> "n",     t |-> "num",  j |-> "7",            d |-> "7"],
    big |-> [src |-> "big",   t |-> "num",  j |-> "3000000000",   d |-> "3000000000"],
    f   |-> [src |-> "f",     t |-> "num",  j |-> "1.5",          d |-> "1.5"],
    b   |-> [src |-> "b",     t |-> "bool", j |-> "true",         d |-> "true"],
    s   |-> [src |-> "s",     t |-> "str",  j |-> "ab",           d |-> "ab"],
    u   |-> [src |-> "u",     t |-> "str",  j |-> "h\\u00e9 \\u2713", d |-> "h\\u00e9 \\u2713"],
    z   |-> [src |-> "z",     t |-> "json", j |-> "null",         d |-> "null"],
    a   |-> [src |-> "a",     t |-> "json", j |-> "[1,\"x\"]",    d |-> "[1,\"x\"]"],
    o   |-> [src |-> "o",     t |-> "json", j |-> "{\"k\":1}",    d |-> "{\"k\":1}"],
    e   |-> [src |-> "e",     t |-> "str",  j |-> "",             d |-> ""],
    sum |-> [src |-> "n + 1", t |-> "num",  j |-> "8",            d |-> "8"],
    cat |-> [src |-> "s + \"-\" + n", t |-> "str", j |-> "ab-7",  d |-> "ab-7"] ]

Lits == { "a", " ", "-x-", "{ ", " }", "\\u00e9" }   \* non-ASCII text is written \uXXXX on both sides
Lit(s) == [k |-> "lit", s |-> s]
Tpl(e, pad) == [k |-> "tpl", e |-> e, pad |-> pad]
Symbols == { Lit(s) : s \in Lits } \cup { Tpl(e, 1) : e \in DOMAIN Exprs } \cup { Tpl("n", 0), Tpl("s", 0) }

(* the text of a parameter string *)
SegText(g) == IF g.k = "lit" THEN g.s
              ELSE IF g.pad = 1 THEN "{{ " \o Exprs[g.e].src \o " }}" ELSE "{{" \o Exprs[g.e].src \o "}}"
RECURSIVE CatText(_)
CatText(segs) == IF segs = <<>> THEN "" ELSE SegText(Head(segs)) \o CatText(Tail(segs))
ParamText(segs) == CatText(segs)

HasTpl(segs) == \E i \in DOMAIN segs : segs[i].k = "tpl"
Piece(g) == IF g.k = "lit" THEN g.s ELSE Exprs[g.e].d
RECURSIVE CatPieces(_)
CatPieces(segs) == IF segs = <<>> THEN "" ELSE Piece(Head(segs)) \o CatPieces(Tail(segs))

(* fill_params on a string (convert.rs:6-45):                                *)
(*  - no template: the string itself;                                        *)
(*  - exactly one template and nothing else: the typed value;                *)
(*  - otherwise a string in which every template is replaced, each on its    *)
(*    own, by the text of its value                                          *)
Fill(segs) ==
  IF ~HasTpl(segs) THEN [t |-> "str", s |-> ParamText(segs)]
  ELSE IF Len(segs) = 1 THEN [t |-> Exprs[segs[1].e].t, s |-> Exprs[segs[1].e].j]
  ELSE [t |-> "str", s |-> CatPieces(segs)]

(* what a filled value contributes to a longer string *)
Shown(segs) == IF ~HasTpl(segs) THEN ParamText(segs)
               ELSE IF Len(segs) = 1 THEN Exprs[segs[1].e].d ELSE Fill(segs).s

(* C14, template half, as laws of Fill *)
TemplateLaws(x, y) ==
  /\ (~HasTpl(x) => Fill(x) = [t |-> "str", s |-> ParamText(x)])                  \* verbatim
  /\ (Len(x) = 1 /\ HasTpl(x) => Fill(x).s = Exprs[x[1].e].j /\ Fill(x).t = Exprs[x[1].e].t)  \* typed
  /\ (x # <<>> /\ y # <<>> /\ HasTpl(x \o y) =>
        Fill(x \o y) = [t |-> "str", s |-> Shown(x) \o Shown(y)])                \* independent substitution
=============================================================================
