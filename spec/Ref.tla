--------------------------------- MODULE Ref ---------------------------------
(***************************************************************************)
(* A declarative reference interpretation of a workflow model (C04).       *)
(*                                                                         *)
(* No queue, no tasks, no review: by structural recursion on the NESTED    *)
(* model (not on the node table of Tree.tla) it says which nodes run and   *)
(* how each one ends when every interrupt is answered with `complete`.     *)
(* It is deliberately independent of Acts.tla; TLC checks the two against  *)
(* each other on every terminal state of every schedule, and the engine's  *)
(* final task list is compared with it on every complete-only run.         *)
(*                                                                         *)
(*   - steps of a list run one after another; a step whose `if` is false   *)
(*     is skipped and the list goes on;                                    *)
(*   - a running step starts all its branches and its first act; acts run  *)
(*     one after another, an act whose `if` is false is skipped;           *)
(*   - a branch with `needs` runs (after a needed sibling has finished);   *)
(*     a branch with `if` runs iff the condition holds; the else branch    *)
(*     runs iff every sibling ended skipped; a branch with neither `if`    *)
(*     nor `else` nor `needs` is skipped (as the engine has it);           *)
(*   - everything that runs completes.                                     *)
(***************************************************************************)
EXTENDS Naturals, Sequences, FiniteSets, TLC

RECURSIVE REval(_, _)
REval(e, env) ==
  CASE e.op = "none"  -> TRUE
    [] e.op = "true"  -> TRUE
    [] e.op = "false" -> FALSE
    [] e.op = "lt" -> env[e.var] <  e.c
    [] e.op = "le" -> env[e.var] <= e.c
    [] e.op = "eq" -> env[e.var] =  e.c
    [] e.op = "ne" -> env[e.var] #  e.c
    [] e.op = "ge" -> env[e.var] >= e.c
    [] e.op = "gt" -> env[e.var] >  e.c
    [] e.op = "not" -> ~REval(e.a, env)
    [] e.op = "and" -> REval(e.a, env) /\ REval(e.b, env)
    [] e.op = "or"  -> REval(e.a, env) \/ REval(e.b, env)

RECURSIVE RSteps(_, _), RStep(_, _), RActs(_, _), RBranches(_, _, _)

(* how a branch ends, given its siblings *)
BranchRuns(b, all, env) ==
  IF b.needs # <<>> THEN TRUE
  ELSE IF b.cond.op # "none" THEN REval(b.cond, env)
  ELSE IF ~b.else THEN FALSE
  ELSE Len(all) = 1 \/
       \A i \in DOMAIN all :
          all[i].id = b.id \/
          (all[i].needs = <<>> /\ (IF all[i].cond.op # "none" THEN ~REval(all[i].cond, env) ELSE TRUE))
          \* a sibling without needs that is skipped: false `if`, or neither if nor else;
          \* a second else-branch cannot occur (the generator emits at most one)

RBranches(bs, all, env) ==
  IF bs = <<>> THEN {}
  ELSE LET b == Head(bs) IN
       (IF BranchRuns(b, all, env)
        THEN {<<b.id, "completed">>} \cup RSteps(b.steps, env)
        ELSE {<<b.id, "skipped">>})
       \cup RBranches(Tail(bs), all, env)

RActs(acts, env) ==
  IF acts = <<>> THEN {}
  ELSE LET a == Head(acts) IN
       {<<a.id, IF REval(a.cond, env) THEN "completed" ELSE "skipped">>} \cup RActs(Tail(acts), env)

RStep(s, env) ==
  IF ~REval(s.cond, env) THEN {<<s.id, "skipped">>}
  ELSE {<<s.id, "completed">>}
       \cup (IF s.next = "nil" THEN RBranches(s.branches, s.branches, env) ELSE {})
       \cup RActs(s.acts, env)

RSteps(steps, env) ==
  IF steps = <<>> THEN {} ELSE RStep(Head(steps), env) \cup RSteps(Tail(steps), env)

(* the set of <<node id, final state>> of a run in which every interrupt is    *)
(* answered with complete                                                      *)
RefOutcome(m, env) == {<<m.id, "completed">>} \cup RSteps(m.steps, env)

(* models the reference speaks about: no catches/timeouts/setup, every act is  *)
(* an interrupt or a message, no explicit next                                 *)
RECURSIVE PlainSteps(_), PlainBranches(_), PlainActs(_)
PlainActs(acts) ==
  \A i \in DOMAIN acts : /\ acts[i].uses \in {"irq", "msg"} /\ acts[i].catches = <<>>
                         /\ acts[i].timeouts = <<>> /\ acts[i].setup = <<>>
PlainBranches(bs) == \A i \in DOMAIN bs : PlainSteps(bs[i].steps)
PlainSteps(ss) ==
  \A i \in DOMAIN ss : /\ ss[i].catches = <<>> /\ ss[i].timeouts = <<>> /\ ss[i].setup = <<>>
                       /\ ss[i].next = "nil"
                       /\ PlainActs(ss[i].acts) /\ PlainBranches(ss[i].branches)
PlainModel(m) == m.setup = <<>> /\ PlainSteps(m.steps)

(* ... the same with explicit `next` jumps allowed (loops): the local ordering rules of C04 *)
(* hold for every pass                                                                      *)
RECURSIVE PlainStepsL(_), PlainBranchesL(_)
PlainBranchesL(bs) == \A i \in DOMAIN bs : PlainStepsL(bs[i].steps)
PlainStepsL(ss) ==
  \A i \in DOMAIN ss : /\ ss[i].catches = <<>> /\ ss[i].timeouts = <<>> /\ ss[i].setup = <<>>
                       /\ PlainActs(ss[i].acts) /\ PlainBranchesL(ss[i].branches)
PlainModelL(m) == m.setup = <<>> /\ PlainStepsL(m.steps)
=============================================================================
