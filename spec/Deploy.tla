------------------------------- MODULE Deploy -------------------------------
(***************************************************************************)
(* The model registry (C20): what deploy, rm and start do                  *)
(* (export/executor/model_executor.rs, store/store.rs:102-142,             *)
(* process_executor.rs:22-33).                                             *)
(*   - deploy validates the model (a non-empty model id; no duplicate node *)
(*     id among workflow, `on` events, steps, branches, acts), stores it    *)
(*     with version +1 (1 the first time) and registers one start event    *)
(*     "<mid>:<on id>" per `on` entry;                                     *)
(*   - rm deletes the model and exactly its events;                        *)
(*   - start of a model that is not deployed fails.                        *)
(***************************************************************************)
EXTENDS Naturals, FiniteSets, TLC

VARIABLES vers,    \* mid -> version of the deployed model
          events   \* set of [mid, on]

dvars == <<vers, events>>

Deployed == DOMAIN vers

DeployOK(mid, ons) ==
  /\ vers' = IF mid \in Deployed THEN [vers EXCEPT ![mid] = @ + 1] ELSE (mid :> 1) @@ vers
  /\ events' = events \cup { [mid |-> mid, on |-> o] : o \in ons }
DeployRejected == UNCHANGED dvars

Rm(mid) ==
  /\ vers' = [m \in Deployed \ {mid} |-> vers[m]]
  /\ events' = { e \in events : e.mid # mid }

StartOK(mid) == mid \in Deployed
=============================================================================
