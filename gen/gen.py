#!/usr/bin/env python3
"""Bounded workflow grammar -> models.ndjson.

One source of truth for programs: each output line carries
  name    unique name of the model inside its family
  spec    the nested record Tree.tla / Acts.tla read (absent values are "nil")
  model   the same workflow as the JSON text the engine parses (JSON is YAML)
  inputs  the input valuations explored for it
The engine's node tree built from `model` is compared with Flatten(spec) on
every trace (model line), so a disagreement between the two renderings shows
up as a tree mismatch, not as a silent wrong oracle.

usage: gen.py <family> <out.ndjson> [--seed N] [--limit N]
"""
import itertools
import json
import random
import sys

NIL = "nil"
NOCOND = {"op": "none"}   # TLC cannot compare a string with a record

# ----------------------------------------------------------------------------------------
# expressions


def E(op, **kw):
    d = {"op": op}
    d.update(kw)
    return d


def js(e):
    op = e["op"]
    if op in ("true", "false"):
        return op
    if op in ("lt", "le", "eq", "ne", "ge", "gt"):
        sym = {"lt": "<", "le": "<=", "eq": "==", "ne": "!=", "ge": ">=", "gt": ">"}[op]
        return f"{e['var']} {sym} {e['c']}"
    if op == "not":
        return f"!({js(e['a'])})"
    if op == "and":
        return f"({js(e['a'])}) && ({js(e['b'])})"
    if op == "or":
        return f"({js(e['a'])}) || ({js(e['b'])})"
    raise ValueError(op)


A = E("lt", var="v", c=1)      # v < 1
NA = E("ge", var="v", c=1)     # v >= 1
B = E("lt", var="w", c=1)      # w < 1
NB = E("ge", var="w", c=1)

# ----------------------------------------------------------------------------------------
# builders of the nested spec record


def act(id, uses="irq", cond=NOCOND, catches=(), timeouts=(), setup=(), to=None, cpid=None, opts=None):
    d = {"id": id, "uses": uses, "cond": cond, "catches": list(catches),
         "timeouts": list(timeouts), "setup": list(setup)}
    if uses == "sub":
        # a call of the workflow `to`; the child gets the process id `cpid` and the inputs `opts`
        d["to"] = to
        d["cpid"] = cpid
        d["opts"] = {"v": 0, "w": 0, **(opts or {})}
    return d


def step(id, cond=NOCOND, branches=(), acts=(), catches=(), timeouts=(), setup=(), next=NIL):
    return {"id": id, "cond": cond, "branches": list(branches), "acts": list(acts),
            "catches": list(catches), "timeouts": list(timeouts), "setup": list(setup),
            "next": next}


def branch(id, cond=NOCOND, els=False, needs=(), steps=()):
    return {"id": id, "cond": cond, "else": els, "needs": list(needs), "steps": list(steps)}


def catch(on=NIL, steps=()):
    return {"on": on, "steps": list(steps)}


def timeout(secs, steps=(), unit="s"):
    mult = {"s": 1, "m": 60, "h": 3600, "d": 86400}[unit]
    return {"on": f"{secs}{unit}", "secs": secs * mult, "steps": list(steps)}


def workflow(id, steps, setup=()):
    return {"id": id, "steps": list(steps), "setup": list(setup)}


# ----------------------------------------------------------------------------------------
# rendering for the engine

USES = {"irq": "acts.core.irq", "msg": "acts.core.msg", "": "", "bad": "no.such.pack", "sub": "acts.core.subflow",
        "code": "acts.transform.code"}


def r_cond(d, e):
    if e != NOCOND:
        d["if"] = js(e)


def r_catches(cs):
    out = []
    for c in cs:
        d = {"steps": [r_step(s) for s in c["steps"]]}
        if c["on"] != NIL:
            d["on"] = c["on"]
        out.append(d)
    return out


def r_timeouts(ts):
    return [{"on": t["on"], "steps": [r_step(s) for s in t["steps"]]} for t in ts]


def r_act(a):
    d = {"id": a["id"], "uses": USES[a["uses"]], "key": "k_" + a["id"]}
    if a["uses"] == "sub":
        d["params"] = {"to": a["to"], "options": {"pid": a["cpid"], **a["opts"]}}
    if a["uses"] == "code":
        # a script that notes something in the environment of the process
        d["params"] = '$env.tok = "t-" + a["id"]; return null;'.replace('a["id"]', a["id"]).replace('"t-" + ', '"t-').replace('; return', '"; return')
    r_cond(d, a["cond"])
    if a["catches"]:
        d["catches"] = r_catches(a["catches"])
    if a["timeouts"]:
        d["timeout"] = r_timeouts(a["timeouts"])
    return d


def r_branch(b):
    d = {"id": b["id"], "steps": [r_step(s) for s in b["steps"]]}
    r_cond(d, b["cond"])
    if b["else"]:
        d["else"] = True
    if b["needs"]:
        d["needs"] = list(b["needs"])
    return d


def r_step(s):
    d = {"id": s["id"]}
    r_cond(d, s["cond"])
    if s["branches"]:
        d["branches"] = [r_branch(b) for b in s["branches"]]
    if s["acts"]:
        d["acts"] = [r_act(a) for a in s["acts"]]
    if s["catches"]:
        d["catches"] = r_catches(s["catches"])
    if s["timeouts"]:
        d["timeout"] = r_timeouts(s["timeouts"])
    if s["next"] != NIL:
        d["next"] = s["next"]
    return d


def r_workflow(w):
    d = {"id": w["id"], "name": w["id"], "steps": [r_step(s) for s in w["steps"]]}
    if '"uses": "code"' in json.dumps(w):
        # the scripts of these models write the environment of the process: declare the key
        d["env"] = {"tok": "draft"}
    return d


def vars_of(obj, acc):
    if isinstance(obj, dict):
        if "var" in obj and "op" in obj and obj["op"] != "none":
            acc.add(obj["var"])
        for v in obj.values():
            vars_of(v, acc)
    elif isinstance(obj, list):
        for v in obj:
            vars_of(v, acc)
    return acc


def count_nodes(obj):
    """number of declared nodes (workflow, steps, branches, acts)"""
    n = 0
    if isinstance(obj, dict):
        if "id" in obj:
            n += 1
        for v in obj.values():
            n += count_nodes(v)
    elif isinstance(obj, list):
        for v in obj:
            n += count_nodes(v)
    return n


def line(name, w, values=(0, 1)):
    vs = sorted(vars_of(w, set()))
    # every model gets both names so that valuations are uniform records
    names = ["v", "w"]
    used = [n for n in names if n in vs]
    inputs = []
    for combo in itertools.product(values, repeat=len(used)):
        d = {n: 0 for n in names}
        d.update(dict(zip(used, combo)))
        inputs.append(d)
    return {"name": name, "spec": w, "model": json.dumps(r_workflow(w)), "inputs": inputs,
            "nodes": count_nodes(w), "clock": clock_of(w)}


def limits_of(obj, acc):
    if isinstance(obj, dict):
        if "secs" in obj and "on" in obj:
            acc.add(obj["secs"])
        for v in obj.values():
            limits_of(v, acc)
    elif isinstance(obj, list):
        for v in obj:
            limits_of(v, acc)
    return acc


def clock_of(w):
    """the clock moves explored for a model: steps of 1 s and jumps to just before each limit, on the
    grid {0, 1, L-1, L, L+1 : L a limit} (the same in TLC's configuration and in the harness)"""
    lim = sorted(limits_of(w, set()))
    if not lim:
        return {"adv": [], "grid": [0]}
    adv = sorted({1} | {l - 1 for l in lim if l > 1})
    grid = sorted({0, 1} | {x for l in lim for x in (l - 1, l, l + 1)})
    return {"adv": adv, "grid": grid}


# ----------------------------------------------------------------------------------------
# hand-written models: the regressions of known defects and README-like layouts


def hand():
    out = []
    # F1: else declared last / first, with a following step
    out.append(line("else_last", workflow("m", [
        step("s1", branches=[
            branch("b1", cond=A, steps=[step("s11", acts=[act("a1")])]),
            branch("b2", els=True, steps=[step("s21")]),
        ]),
        step("s2"),
    ])))
    out.append(line("else_first", workflow("m", [
        step("s1", branches=[
            branch("b2", els=True, steps=[step("s21")]),
            branch("b1", cond=A, steps=[step("s11", acts=[act("a1")])]),
        ]),
        step("s2"),
    ])))
    out.append(line("else_empty", workflow("m", [
        step("s1", branches=[
            branch("b1", cond=A),
            branch("b2", els=True),
        ]),
        step("s2", acts=[act("a2")]),
    ])))
    out.append(line("needs", workflow("m", [
        step("s1", branches=[
            branch("b1", cond=A, steps=[step("s11", acts=[act("a1")])]),
            branch("b2", needs=["b1"], steps=[step("s21", acts=[act("a2")])]),
        ]),
    ])))
    out.append(line("two_acts", workflow("m", [
        step("s1", acts=[act("a1"), act("a2", cond=A)]),
        step("s2", cond=B, acts=[act("a3", uses="msg")]),
    ])))
    out.append(line("par_branches", workflow("m", [
        step("s1", branches=[
            branch("b1", cond=A, steps=[step("s11", acts=[act("a1")])]),
            branch("b2", cond=B, steps=[step("s21", acts=[act("a2")]), step("s22")]),
        ]),
        step("s2", acts=[act("a3")]),
    ])))
    out.append(line("catch_act", workflow("m", [
        step("s1", acts=[act("a1", catches=[catch("e1", [step("c1", acts=[act("ca1")])])]),
                         act("a2")]),
        step("s2"),
    ])))
    out.append(line("catch_step_two", workflow("m", [
        step("s1", acts=[act("a1")],
             catches=[catch("e1", [step("c1")]), catch("e2", [step("c2")])]),
        step("s2"),
    ])))
    out.append(line("catch_two_irq", workflow("m", [
        step("s1", acts=[act("a1")],
             catches=[catch("e1", [step("c1", acts=[act("ca1")])]), catch("e2", [step("c2", acts=[act("ca2")])])]),
        step("s2"),
    ])))
    out.append(line("catch_act_two_irq", workflow("m", [
        step("s1", acts=[act("a1", catches=[catch("e1", [step("c1", acts=[act("ca1")])]),
                                            catch(NIL, [step("c2")])])]),
        step("s2", acts=[act("a2")]),
    ])))
    # a catching act inside the catch steps of a step that has already caught, and in a branch that is
    # still open when another branch's error is caught by the enclosing step: the catch marks are per task
    out.append(line("catch_in_catch", workflow("m", [
        step("s1", acts=[act("a1")],
             catches=[catch("e1", [step("c1", acts=[act("ca1", catches=[catch("e2", [step("k1")])])])])]),
        step("s2"),
    ])))
    out.append(line("catch_all_empty", workflow("m", [
        step("s1", acts=[act("a1", catches=[catch(NIL, [])])]),
        step("s2", acts=[act("a2")]),
    ])))
    out.append(line("cancel_chain", workflow("m", [
        step("s1", acts=[act("a1", cond=B)]),
        step("s2", acts=[act("a2", cond=B), act("a3")]),
    ])))
    out.append(line("env_write", workflow("m", [
        step("s1", acts=[act("a0", uses="code"), act("a1")]),
        step("s2", acts=[act("a2", uses="code"), act("a3")]),
    ])))
    out.append(line("no_uses", workflow("m", [
        step("s1", acts=[act("a1", uses="")]),
        step("s2"),
    ])))
    out.append(line("bad_pack_caught", workflow("m", [
        step("s1", acts=[act("a1", uses="bad")], catches=[catch(NIL, [step("c1")])]),
        step("s2"),
    ])))
    return out


def bundle(name, main, subs=()):
    """several workflows deployed in one engine: the lines of the others come first, the main one last;
    every spec record carries its offset to the main line and the size of the bundle"""
    ws = list(subs) + [main]
    out = []
    for i, w in enumerate(ws):
        w = dict(w)
        w["boff"] = len(ws) - 1 - i
        w["bsize"] = len(ws)
        ln = line(name if i == len(ws) - 1 else f"{name}__{w['id']}", w)
        ln["bundle"] = name
        out.append(ln)
    return out


def with_id(w, id):
    w = json.loads(json.dumps(w))
    w["id"] = id
    return w


def subflow():
    out = []
    child = workflow("c", [step("cs1", acts=[act("ca1")])])
    out += bundle("sub_wait", workflow("m", [
        step("s1", acts=[act("a1", uses="sub", to="c", cpid="c1")]), step("s2")]), [child])
    out += bundle("sub_race", workflow("m", [
        step("s1", acts=[act("a1", uses="sub", to="c", cpid="c1"), act("a2")]),
        step("s2", acts=[act("a3")])]), [child])
    out += bundle("sub_instant", workflow("m", [
        step("s1", acts=[act("a1", uses="sub", to="c", cpid="c1")]),
        step("s2", acts=[act("a2")])]), [workflow("c", [step("cs1")])])
    out += bundle("sub_missing", workflow("m", [
        step("s1", acts=[act("a1", uses="sub", to="nomodel", cpid="c1")]), step("s2")]))
    out += bundle("sub_missing_caught", workflow("m", [
        step("s1", acts=[act("a1", uses="sub", to="nomodel", cpid="c1")], catches=[catch(NIL, [step("c1")])]),
        step("s2", acts=[act("a2")])]))
    out += bundle("sub_nested", workflow("m", [
        step("s1", acts=[act("a1", uses="sub", to="c", cpid="c1")]), step("s2")]),
        [workflow("g", [step("gs1", acts=[act("ga1")])]),
         workflow("c", [step("cs1", acts=[act("ca1", uses="sub", to="g", cpid="g1")])])])
    out += bundle("sub_catch", workflow("m", [
        step("s1", acts=[act("a1", uses="sub", to="c", cpid="c1",
                             catches=[catch("e1", [step("k1", acts=[act("ka1")])])])]),
        step("s2")]), [child])
    out += bundle("sub_two", workflow("m", [
        step("s1", acts=[act("a1", uses="sub", to="c", cpid="c1"), act("a2", uses="sub", to="d", cpid="d1")]),
        step("s2")]), [child, workflow("d", [step("ds1", acts=[act("da1")])])])
    out += bundle("sub_inputs", workflow("m", [
        step("s1", acts=[act("a1", uses="sub", to="c", cpid="c1", opts={"v": 1})]), step("s2")]),
        [workflow("c", [step("cs1", branches=[
            branch("cb1", cond=A, steps=[step("cs11", acts=[act("ca1")])]),
            branch("cb2", els=True, steps=[step("cs21", acts=[act("ca2")])])])])])
    out += bundle("sub_child_fails", workflow("m", [
        step("s1", acts=[act("a1", uses="sub", to="c", cpid="c1")]), step("s2")]),
        [workflow("c", [step("cs1", acts=[act("ca1", uses="bad")])])])
    out += bundle("sub_nested_missing", workflow("m", [
        step("s1", acts=[act("a1", uses="sub", to="c", cpid="c1")], catches=[catch(NIL, [step("k1", acts=[act("ka1")])])]),
        step("s2")]),
        [workflow("c", [step("cs1", acts=[act("ca1", uses="sub", to="nomodel", cpid="g1")])])])
    out += bundle("sub_same_twice", workflow("m", [
        step("s1", acts=[act("a1", uses="sub", to="c", cpid="c1")]),
        step("s2", acts=[act("a2", uses="sub", to="c", cpid="c1")])]), [workflow("c", [step("cs1")])])
    return out


def multi():
    """independent workflows side by side in one engine (C13)"""
    h = {ln["name"]: ln["spec"] for ln in hand()}
    out = []
    out += bundle("m_two_same", with_id(h["two_acts"], "m"))
    out += bundle("m_two_diff", with_id(h["two_acts"], "m"), [with_id(h["catch_act"], "n")])
    out += bundle("m_three", with_id(h["else_last"], "m"), [with_id(h["cancel_chain"], "n"), with_id(h["catch_step_two"], "o")])
    out += bundle("m_par", with_id(h["par_branches"], "m"), [with_id(h["needs"], "n")])
    out += bundle("m_err", with_id(h["no_uses"], "m"), [with_id(h["catch_all_empty"], "n")])
    out += bundle("m_env", with_id(h["env_write"], "m"), [with_id(h["two_acts"], "n")])
    return out


# ----------------------------------------------------------------------------------------
# generators, lifecycle hooks, push (C16): programs for spec/Gen.tla


def g_irq(key, hooks=()):
    return {"k": "irq", "key": key, "hooks": list(hooks), "n": 0, "mode": "nil", "items": []}


def g_gen(kind, key, n, items):
    return {"k": kind, "key": key, "hooks": [], "n": n, "mode": "nil", "items": list(items)}


def g_blk(mode, key, items):
    return {"k": "blk", "key": key, "hooks": [], "n": 0, "mode": mode, "items": list(items)}


def r_hook(owner, on):
    return {"uses": "acts.core.msg", "on": on, "key": f"h_{owner}_{on}"}


def r_item(it):
    if it["k"] == "msg":
        return {"uses": "acts.core.msg", "key": it["key"]}
    if it["k"] == "irq":
        d = {"uses": "acts.core.irq", "key": it["key"]}
        if it["hooks"]:
            d["setup"] = [r_hook(it["key"], on) for on in it["hooks"]]
        return d
    if it["k"] in ("par", "seq"):
        return {"uses": "acts.core.parallel" if it["k"] == "par" else "acts.core.sequence", "key": it["key"],
                "params": {"in": [f"u{i}" for i in range(it["n"])], "acts": [r_item(x) for x in it["items"]]}}
    return {"uses": "acts.core.block", "key": it["key"],
            "params": {"mode": "parallel" if it["mode"] == "par" else "sequence", "acts": [r_item(x) for x in it["items"]]}}


def g_line(name, acts, hw=(), hs=(), hk=()):
    prog = {"acts": list(acts), "hw": list(hw), "hs": list(hs), "hk": list(hk)}
    step = {"id": "s1", "acts": [dict(r_item(a), id=f"t{i}") for i, a in enumerate(acts)]}
    if hs:
        step["setup"] = [r_hook("s", on) for on in hs]
    wf = {"id": "g", "name": "g", "steps": [step]}
    if hw:
        wf["setup"] = [r_hook("w", on) for on in hw]
    return {"name": name, "prog": prog, "model": json.dumps(wf)}


def gens():
    out = []
    k1, k2 = g_irq("k1"), g_irq("k2")
    bases = []
    for n in range(0, 4):
        bases.append((f"par{n}", [g_gen("par", "g1", n, [k1])]))
        bases.append((f"seq{n}", [g_gen("seq", "g1", n, [k1])]))
    for n in (1, 2):
        bases.append((f"par{n}x2", [g_gen("par", "g1", n, [k1, k2])]))
        bases.append((f"seq{n}x2", [g_gen("seq", "g1", n, [k1, k2])]))
        bases.append((f"mid_par{n}", [g_irq("k0"), g_gen("par", "g1", n, [k1]), g_irq("k9")]))
    bases.append(("mid_seq0", [g_irq("k0"), g_gen("seq", "g1", 0, [k1]), g_irq("k9")]))
    for n in (1, 2):
        for m in (0, 1, 2):
            bases.append((f"par{n}_seq{m}", [g_gen("par", "g1", n, [g_gen("seq", "g2", m, [k1])])]))
            bases.append((f"seq{n}_par{m}", [g_gen("seq", "g1", n, [g_gen("par", "g2", m, [k1])])]))
    bases.append(("blk_par", [g_blk("par", "b1", [k1, k2])]))
    bases.append(("blk_seq", [g_blk("seq", "b1", [k1, k2])]))
    bases.append(("par2_blkpar", [g_gen("par", "g1", 2, [g_blk("par", "b1", [k1, k2])])]))
    bases.append(("plain", [k1, k2]))
    m1 = {"k": "msg", "key": "m1", "hooks": [], "n": 0, "mode": "nil", "items": []}
    bases.append(("msg_first", [m1, k1]))
    bases.append(("msg_last", [k1, m1]))
    bases.append(("par2_msg", [g_gen("par", "g1", 2, [m1, k1])]))
    hookings = [
        ("h0", (), (), ()),
        ("hs_upd", (), ("before_update", "updated"), ()),
        ("hs_life", (), ("created", "completed", "step"), ()),
        ("hw_all", ("before_update", "updated", "step", "created", "completed"), (), ()),
        ("hk", (), (), ("created", "completed")),
        ("hall", ("updated", "step"), ("before_update", "updated", "step"), ("created", "completed")),
    ]

    def with_irq_hooks(it, hk):
        it = dict(it)
        if it["k"] == "irq" and it["key"] == "k1":
            it["hooks"] = list(hk)
        it["items"] = [with_irq_hooks(x, hk) for x in it["items"]]
        return it

    for bname, acts in bases:
        for hname, hw, hs, hk in hookings:
            out.append(g_line(f"{bname}.{hname}", [with_irq_hooks(a, hk) for a in acts], hw, hs, hk))
    return out


# ----------------------------------------------------------------------------------------
# data flow (C07): programs for spec/Data.tla.  Two steps; `a`, `o` declared by the workflow
# (inputs), `b` by step s1, `c` by step s2; `u` is declared nowhere, `__p` is private.


def d_writers(scope):
    """(label, engine act(s), ops) of the writers that can stand in a step"""
    own = {"s1": "b", "s2": "c"}[scope]
    out = []
    n = 0

    def nxt():
        nonlocal n
        n += 1
        return f"{scope}w{n}"

    for name in ("a", own, "u"):
        out.append((f"set_{name}", [{"uses": "acts.transform.set", "params": {name: 5}}],
                    [{"k": "w", "scope": scope, "n": name, "v": 5}]))
        out.append((f"codeset_{name}", [{"uses": "acts.transform.code", "params": f'$set("{name}", 6); return null;'}],
                    [{"k": "w", "scope": scope, "n": name, "v": 6}]))
        out.append((f"coderet_{name}", [{"uses": "acts.transform.code", "params": f'return {{ {name}: 7 }};'}],
                    [{"k": "w", "scope": scope, "n": name, "v": 7}]))
    out.append(("setx_a_from_" + own, [{"uses": "acts.transform.set", "params": {"a": "{{ " + own + " + 10 }}"}}],
                [{"k": "wx", "scope": scope, "n": "a", "m": own, "d": 10}]))
    out.append(("setx_" + own + "_from_a", [{"uses": "acts.transform.set", "params": {own: "{{ a + 20 }}"}}],
                [{"k": "wx", "scope": scope, "n": own, "m": "a", "d": 20}]))
    # client actions on an interrupt: with and without declared outputs, extra options, a private key
    out.append(("act_plain_a", [{"uses": "acts.core.irq", "key": "KEY"}],
                [{"k": "act", "scope": scope, "key": "KEY", "opts": [["a", 8]], "outs": []}]))
    out.append(("act_plain_own_u", [{"uses": "acts.core.irq", "key": "KEY"}],
                [{"k": "act", "scope": scope, "key": "KEY", "opts": [[own, 8], ["u", 9]], "outs": []}]))
    out.append(("act_declared_a_extra_o", [{"uses": "acts.core.irq", "key": "KEY", "outputs": {"a": None}}],
                [{"k": "act", "scope": scope, "key": "KEY", "opts": [["a", 8], ["o", 99]], "outs": ["a"]}]))
    out.append(("act_declared_own_extra_a", [{"uses": "acts.core.irq", "key": "KEY", "outputs": {own: None}}],
                [{"k": "act", "scope": scope, "key": "KEY", "opts": [[own, 8], ["a", 99]], "outs": [own]}]))
    out.append(("act_private", [{"uses": "acts.core.irq", "key": "KEY"}],
                [{"k": "act", "scope": scope, "key": "KEY", "opts": [["__p", 4], ["o", 3]], "outs": []}]))
    return out


def dataflow():
    out = []
    w1s, w2s = d_writers("s1"), d_writers("s2")
    combos = []
    for i, w1 in enumerate(w1s):
        combos.append(([w1], [w2s[(i * 5 + 3) % len(w2s)]]))
        combos.append(([w1], [w2s[(i * 7 + 1) % len(w2s)]]))
    for j, w2 in enumerate(w2s):
        combos.append(([w1s[(j * 3 + 2) % len(w1s)]], [w2]))

    def written(w):
        ns = set()
        for o in w[2]:
            if o["k"] in ("w", "wx"):
                ns.add(o["n"])
            else:
                ns |= {kv[0] for kv in o["opts"]}
        return ns
    # two writers in one step, the second writing a name the first wrote (last writer wins)
    for ws, other in ((w1s, w2s), (w2s, w1s)):
        for i, x in enumerate(ws):
            for j, y in enumerate(ws):
                if i != j and written(x) & written(y) and (i + 2 * j) % 3 != 1:
                    pair = ([x, y], [other[(i + j) % len(other)]])
                    combos.append(pair if ws is w1s else (pair[1], pair[0]))
    seen = set()
    for g1, g2 in combos:
        name = "+".join(w[0] for w in g1) + "__" + "+".join(w[0] for w in g2)
        if name in seen:
            continue
        seen.add(name)

        def acts_of(group, scope):
            acts, ops = [], []
            for idx, w in enumerate(group, 1):
                key = f"k_{scope}_{idx}"
                for a in w[1]:
                    a = json.loads(json.dumps(a).replace("KEY", key))
                    a["id"] = f"{scope}a{idx}"
                    acts.append(a)
                for o in w[2]:
                    o = json.loads(json.dumps(o).replace("KEY", key))
                    o["aid"] = f"{scope}a{idx}"
                    ops.append(o)
            return acts, ops
        a1, o1 = acts_of(g1, "s1")
        a2, o2 = acts_of(g2, "s2")
        names = ["a", "o", "b", "c"]
        rd = lambda n: "{{ typeof " + n + " === 'undefined' ? -1 : " + n + " }}"
        r1 = {"id": "s1r", "uses": "acts.core.irq", "key": "r_s1", "inputs": {f"r_{n}": rd(n) for n in names}}
        r2 = {"id": "s2r", "uses": "acts.core.irq", "key": "r_s2", "inputs": {f"r_{n}": rd(n) for n in names}}
        wf = {"id": "d", "name": "d", "inputs": {"a": 1, "o": 0}, "outputs": {"a": None, "o": None},
              "steps": [{"id": "s1", "inputs": {"b": 2}, "acts": a1 + [r1]},
                        {"id": "s2", "inputs": {"c": 3}, "acts": a2 + [r2]}]}
        ops = o1 + [{"k": "r", "scope": "s1", "key": "r_s1", "names": names}] + o2 + [{"k": "r", "scope": "s2", "key": "r_s2", "names": names}]
        full = []
        for o in ops:      # uniform records for TLC
            full.append({"k": o["k"], "scope": o["scope"], "n": o.get("n", "nil"), "v": o.get("v", 0), "m": o.get("m", "nil"),
                         "d": o.get("d", 0), "key": o.get("key", "nil"), "opts": o.get("opts", []), "outs": o.get("outs", []),
                         "names": o.get("names", []), "aid": o.get("aid", "nil")})
        out.append({"name": name, "dprog": {"ops": full}, "model": json.dumps(wf)})
    return out


def loops():
    """backward `next` jumps (second instances of tasks); not in any tier yet, see DESIGN.md"""
    out = []
    out.append(line("loop_needs", workflow("m", [
        step("s1", branches=[
            branch("b1", cond=A, steps=[step("s11", acts=[act("a1")])]),
            branch("b2", needs=["b1"], steps=[step("s21")]),
        ]),
        step("s2", next="s1"),
    ])))
    out.append(line("loop_else", workflow("m", [
        step("s1", branches=[
            branch("b1", cond=A, steps=[step("s11", acts=[act("a1")])]),
            branch("b2", els=True, steps=[step("s21", acts=[act("a2")])]),
        ]),
        step("s2", next="s1"),
    ])))
    return out


def timed():
    """models with timeout rules (C19)"""
    out = []
    tmsg = lambda i: step(f"t{i}", acts=[act(f"tm{i}", uses="msg")])
    out.append(line("t_act_one", workflow("m", [
        step("s1", acts=[act("a1", timeouts=[timeout(2, [tmsg(1)])])]),
        step("s2"),
    ])))
    out.append(line("t_act_two_rules", workflow("m", [
        step("s1", acts=[act("a1", timeouts=[timeout(2, [tmsg(1)]), timeout(3, [tmsg(2)])])]),
    ])))
    out.append(line("t_act_two_rules_desc", workflow("m", [
        step("s1", acts=[act("a1", timeouts=[timeout(3, [tmsg(1)]), timeout(2, [tmsg(2)])])]),
    ])))
    out.append(line("t_step_rule", workflow("m", [
        step("s1", acts=[act("a1"), act("a2")], timeouts=[timeout(2, [step("t1")])]),
        step("s2", acts=[act("a3")]),
    ])))
    out.append(line("t_two_acts", workflow("m", [
        step("s1", acts=[act("a1", timeouts=[timeout(2, [step("t1", acts=[act("ta1")])])]),
                         act("a2", timeouts=[timeout(3, [step("t2")])])]),
    ])))
    out.append(line("t_branches", workflow("m", [
        step("s1", branches=[
            branch("b1", cond=A, steps=[step("s11", acts=[act("a1", timeouts=[timeout(2, [step("t1")])])])]),
            branch("b2", els=True, steps=[step("s21", acts=[act("a2", timeouts=[timeout(3, [step("t2")])])])]),
        ]),
    ])))
    out.append(line("t_empty_rule", workflow("m", [
        step("s1", acts=[act("a1", timeouts=[timeout(2, [])])]),
    ])))
    # a timed act under a timed step, and under the timeout steps of a timed act, with the SAME
    # limit text: the fired-marks are per task, not per limit
    out.append(line("t_nested_same_on", workflow("m", [
        step("s1", acts=[act("a1", timeouts=[timeout(2, [tmsg(1)])])], timeouts=[timeout(2, [tmsg(2)])]),
    ])))
    out.append(line("t_rule_in_rule", workflow("m", [
        step("s1", acts=[act("a1", timeouts=[timeout(2, [step("t1", acts=[act("ta1", timeouts=[timeout(2, [tmsg(3)])])])])])]),
    ])))
    return out


def timedunits():
    out = []
    out.append(line("t_same_limit_two_spellings", workflow("m", [
        step("s1", acts=[act("a1", timeouts=[timeout(60, [step("t1")]), timeout(1, [step("t2")], unit="m")])]),
    ])))
    for unit, n in (("m", 1), ("h", 1), ("d", 1), ("s", 90)):
        out.append(line(f"t_unit_{unit}", workflow("m", [
            step("s1", acts=[act("a1", timeouts=[timeout(n, [step("t1")], unit=unit)])]),
        ])))
    return out


# ----------------------------------------------------------------------------------------
# enumerated family


class Ids:
    def __init__(self):
        self.n = {"s": 0, "b": 0, "a": 0}

    def new(self, k):
        self.n[k] += 1
        return f"{k}{self.n[k]}"


def renumber(w):
    """assign ids in declaration order so that structurally equal models coincide"""
    ids = Ids()
    bmap = {}

    def do_step(s):
        s = dict(s)
        s["id"] = ids.new("s")
        bs = []
        for b in s["branches"]:
            b = dict(b)
            old = b["id"]
            b["id"] = ids.new("b")
            bmap[old] = b["id"]
            bs.append(b)
        # needs refer to sibling branches: remap after all siblings have ids
        for b in bs:
            b["needs"] = [bmap[x] for x in b["needs"]]
            b["steps"] = [do_step(x) for x in b["steps"]]
        s["branches"] = bs
        acts = []
        for a in s["acts"]:
            a = dict(a)
            a["id"] = ids.new("a")
            a["catches"] = [dict(c, steps=[do_step(x) for x in c["steps"]]) for c in a["catches"]]
            acts.append(a)
        s["acts"] = acts
        s["catches"] = [dict(c, steps=[do_step(x) for x in c["steps"]]) for c in s["catches"]]
        return s

    w = dict(w)
    w["steps"] = [do_step(s) for s in w["steps"]]
    return w


def enum_acts(budget, conds, uses_set, max_acts):
    """lists of acts using at most `budget` nodes"""
    yield []
    if budget <= 0:
        return
    singles = [act("a", uses=u, cond=c) for u in uses_set for c in conds]
    for n in range(1, min(max_acts, budget) + 1):
        for combo in itertools.product(singles, repeat=n):
            yield list(combo)


def enum_branch_sets(budget, depth, opts):
    """lists of 2..3 branches; each branch: if A | if B | else | needs(first)"""
    kinds = ["A", "B", "else", "needs"]
    for n in (2, 3):
        if budget < n:
            continue
        for ks in itertools.product(kinds, repeat=n):
            if ks.count("else") > 1:
                continue
            if all(k in ("else", "needs") for k in ks):
                continue
            if "needs" in ks and not any(k in ("A", "B") for k in ks):
                continue
            # the content of each branch: nothing, or one step (with 0..1 irq act)
            contents = []
            rest = budget - n
            for _ in ks:
                c = [[]]
                if depth > 0:
                    c.append([step("s")])
                    c.append([step("s", acts=[act("a")])])
                    if opts.get("branch_two_steps"):
                        c.append([step("s", acts=[act("a")]), step("s")])
                contents.append(c)
            for cs in itertools.product(*contents):
                used = sum(count_nodes(x) for x in cs)
                if used > rest:
                    continue
                bs = []
                first_cond = None
                for i, (k, c) in enumerate(zip(ks, cs)):
                    bid = f"B{i}"
                    if k == "A":
                        bs.append(branch(bid, cond=A, steps=c))
                    elif k == "B":
                        bs.append(branch(bid, cond=B, steps=c))
                    elif k == "else":
                        bs.append(branch(bid, els=True, steps=c))
                    else:
                        # needs the first conditional sibling
                        tgt = [f"B{j}" for j, kk in enumerate(ks) if kk in ("A", "B")][0]
                        bs.append(branch(bid, needs=[tgt], steps=c))
                yield bs


def enum_steps(budget, depth, opts):
    """single steps using at most `budget` nodes (budget includes the step itself)"""
    if budget < 1:
        return
    conds = [NOCOND, A] if opts.get("step_if", True) else [NOCOND]
    for c in conds:
        for acts in enum_acts(budget - 1, [NOCOND, B] if opts.get("act_if", True) else [NOCOND],
                              opts.get("uses", ["irq", "msg"]), opts.get("max_acts", 2)):
            yield step("s", cond=c, acts=acts)
        if depth > 0:
            for bs in enum_branch_sets(budget - 1, depth - 1, opts):
                yield step("s", cond=c, branches=bs)


def enum_workflows(budget, opts):
    seen = set()
    max_steps = opts.get("max_steps", 2)
    for n in range(1, max_steps + 1):
        def rec(k, left):
            if k == 0:
                yield []
                return
            for s in enum_steps(left - (k - 1), opts.get("depth", 1), opts):
                used = count_nodes(s)
                for rest in rec(k - 1, left - used):
                    yield [s] + rest
        for steps in rec(n, budget - 1):
            w = renumber(workflow("m", steps))
            key = json.dumps(w, sort_keys=True)
            if key in seen:
                continue
            seen.add(key)
            yield w


def family_core(budget, opts, limit=None, seed=0):
    ws = list(enum_workflows(budget, opts))
    if limit is not None and len(ws) > limit:
        rnd = random.Random(seed)
        ws = rnd.sample(ws, limit)
    return [line(f"g{i}", w) for i, w in enumerate(ws)]


SEQ_NAMES = {"two_acts", "env_write", "catch_in_catch", "catch_act", "catch_step_two", "catch_two_irq", "catch_act_two_irq",
             "catch_all_empty", "cancel_chain", "no_uses", "bad_pack_caught", "else_empty"}

def enrich(obj, path="n"):
    """every optional field populated, unicode text, numbers and nested values (C20 round trip)"""
    if isinstance(obj, dict) and "id" in obj:
        d = dict(obj)
        d["_rich"] = {"name": "名前 " + path + " é✓", "tag": "tag-" + path, "desc": "ß∂ƒ " + path,
                      "inputs": {"x": 1, "f": 1.5, "u": "ü", "arr": [1, "two", None], "obj": {"k": True}},
                      "outputs": {"y": None, "z": "{{ x }}"}}
        for k, v in obj.items():
            if isinstance(v, list):
                d[k] = [enrich(x, path + "." + k[0] + str(i)) for i, x in enumerate(v)]
        return d
    if isinstance(obj, dict):
        return {k: ([enrich(x, path + "." + k[0] + str(i)) for i, x in enumerate(v)] if isinstance(v, list) else v)
                for k, v in obj.items()}
    return obj


def rich_line(name, w, on=()):
    """like line(), but the engine model carries every optional field"""
    ln = line(name, w)
    m = json.loads(ln["model"])

    def deco(node, spec):
        r = spec.get("_rich")
        if r and isinstance(node, dict):
            for k in ("name", "tag", "desc", "inputs", "outputs"):
                node[k] = r[k]
            if "uses" in node:
                node["params"] = {"p": [1, 2.5, "π"], "q": {"r": None}}
                node["options"] = {"o": "ö"}
                node["setup"] = [{"id": "su_" + node["id"], "uses": "acts.core.msg", "key": "k", "on": "created"}]
        if isinstance(node, dict):
            for k, v in node.items():
                sk = {"timeout": "timeouts", "if": None}.get(k, k)
                if isinstance(v, list) and sk in spec and isinstance(spec[sk], list):
                    for a, b in zip(v, spec[sk]):
                        if isinstance(a, dict) and isinstance(b, dict):
                            deco(a, b)
    rs = enrich(w)
    deco(m, rs)
    m["env"] = {"E1": "ä", "E2": 2}
    m["ver"] = 3
    m["on"] = [{"id": o, "uses": "acts.event.manual"} for o in on]
    ln["model"] = json.dumps(m, ensure_ascii=False)
    return ln


def treefam():
    """shapes for C20: nested catches and timeouts, several rules, branches in catch steps, explicit next,
    duplicate ids, and the hand family again with every optional field"""
    out = []
    out.append(rich_line("nested_catch", workflow("m", [
        step("s1", acts=[act("a1", catches=[catch("e1", [step("c1", acts=[act("ca1", catches=[catch(NIL, [step("cc1")])])]),
                                                         step("c2")]),
                                            catch("e2", [step("c3")])],
                             timeouts=[timeout(2, [step("t1"), step("t2")]), timeout(1, [step("t3")], unit="m")])],
             catches=[catch(NIL, [step("sc1", branches=[branch("cb1", cond=A, steps=[step("cbs1")]),
                                                       branch("cb2", els=True)])])],
             timeouts=[timeout(5, [step("st1")])]),
        step("s2", next="s1"),
    ]), on=("ev1", "ev2")))
    out.append(rich_line("three_levels", workflow("m", [
        step("s1", branches=[branch("b1", cond=A, steps=[
            step("s11", branches=[branch("b11", cond=B, steps=[step("s111", acts=[act("a1"), act("a2"), act("a3")])]),
                                  branch("b12", needs=["b11"])]),
            step("s12")]),
            branch("b2", els=True, steps=[step("s21")])]),
        step("s2"), step("s3"), step("s4", acts=[act("a4", uses="msg")]),
    ])))
    out.append(rich_line("mixed_branches_acts", workflow("m", [
        step("s1", branches=[branch("b1", cond=A, steps=[step("s11")]), branch("b2", els=True)],
             acts=[act("a1", uses="msg"), act("a2", catches=[catch("e1", [step("c1")])])]),
        step("s2"),
    ])))
    out.append(rich_line("mixed_dup_act", workflow("m", [
        step("s1", branches=[branch("b1", cond=A)], acts=[act("b1", uses="msg")]),
    ])))
    out.append(rich_line("dup_step_id", workflow("m", [step("s1"), step("s1")])))
    out.append(rich_line("dup_act_id", workflow("m", [step("s1", acts=[act("a1"), act("a1")])])))
    out.append(rich_line("dup_in_catch", workflow("m", [
        step("s1", acts=[act("a1", catches=[catch("e1", [step("s1")])])])])))
    out.append(rich_line("next_forward", workflow("m", [step("s1", next="s2"), step("s2")])))
    for ln in hand() + timed():
        out.append(rich_line("rich_" + ln["name"], ln["spec"], on=("go",)))
    return out


FAMILIES = {
    "treefam": lambda a: treefam(),
    "hand": lambda a: hand(),
    "timed": lambda a: timed(),
    "loops": lambda a: loops(),
    "timedunits": lambda a: timedunits(),
    "subflow": lambda a: subflow(),
    "gens": lambda a: gens(),
    "dataflow": lambda a: dataflow(),
    "multi": lambda a: multi(),
    "timedsmall": lambda a: [ln for ln in timed() if ln["name"] not in ("t_branches", "t_two_acts", "t_act_two_rules")],
    # the hand-written models without parallel interrupt branches (cheap with a larger client budget)
    # the hand-written models WITH parallel interrupt branches (explored with few action kinds)
    "handpar": lambda a: [ln for ln in hand() if ln["name"] in ("par_branches", "needs")],
    "handseq": lambda a: [ln for ln in hand() if ln["name"] in SEQ_NAMES],
    "core6": lambda a: family_core(6, {"max_steps": 2, "depth": 1, "max_acts": 2}, a.get("limit"), a.get("seed", 0)),
    "core7": lambda a: family_core(7, {"max_steps": 2, "depth": 1, "max_acts": 2}, a.get("limit"), a.get("seed", 0)),
    "core8": lambda a: family_core(8, {"max_steps": 2, "depth": 1, "max_acts": 2, "branch_two_steps": True}, a.get("limit"), a.get("seed", 0)),
    "branchy": lambda a: family_core(8, {"max_steps": 2, "depth": 1, "max_acts": 1, "uses": ["irq"], "step_if": False, "act_if": False}, a.get("limit"), a.get("seed", 0)),
}


def main():
    if len(sys.argv) < 3:
        print(__doc__)
        sys.exit(2)
    fam, out = sys.argv[1], sys.argv[2]
    args = {}
    rest = sys.argv[3:]
    while rest:
        k = rest.pop(0)
        if k == "--seed":
            args["seed"] = int(rest.pop(0))
        elif k == "--limit":
            args["limit"] = int(rest.pop(0))
    lines = []
    for f in fam.split("+"):
        for ln in FAMILIES[f](args):
            ln["name"] = f"{f}/{ln['name']}"
            lines.append(ln)
    with open(out, "w") as fh:
        for ln in lines:
            fh.write(json.dumps(ln, sort_keys=True) + "\n")
    print(f"{len(lines)} models -> {out}")


if __name__ == "__main__":
    main()
