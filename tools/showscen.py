#!/usr/bin/env python3
"""showscen.py <trace.ndjson> <scenario#>"""
import json,sys
n=0
for line in open(sys.argv[1]):
    r=json.loads(line)
    if r['ev']=='model':
        n+=1
        if n==int(sys.argv[2]): print(r['name'], r['inputs'], json.dumps(r['model'])[:1200])
    elif n==int(sys.argv[2]):
        if r['ev']!='step': print(r); continue
        s=r
        print(s['n'], s['a'], s.get('t'), s.get('kind',''), json.dumps(s.get('opts','')) if s['a']=='Act' else s.get('d',''), s['res'][:30], 'now',s['post'].get('now'), [ (w['t'][0]+'#'+str(w['t'][1]),w['old'],w['new']) for w in s['ws'] if w['kind']!='proc'], 'gens', [(g['what'][:3],g['t'][0]+'#'+str(g['t'][1]),g['state']) for g in s['gens']], 'q=',[x[0]+'#'+str(x[1]) for x in (s['post']['procs'].get('p1',{}).get('q') or [])])
