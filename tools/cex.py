#!/usr/bin/env python3
"""Summarise a TLC counterexample: cex.py <tlc output file>"""
import re,sys
out=open(sys.argv[1]).read()
states=re.split(r'\nState (\d+): ',out)
for i in range(1,len(states),2):
    body=states[i+1]
    label=body.split('\n')[0]
    label=re.sub(r' line \d+.*','',label)[:70]
    la=re.search(r'lastAct = (\[.*?\])',body,re.S)
    lr=re.search(r'lastRes = "(\S+)"',body)
    mi=re.search(r'mi \|-> (\d+)',body)
    inp=re.search(r'inp \|-> (\[.*?\])',body)
    tasks=re.findall(r'<<"(\w+)", (\d+)>> :>\s*\[ st \|-> "(\w+)"',body)
    q=re.findall(r'<<"p\d", <<"(\w+)", (\d+)>>>>', (re.search(r'queue = (.*?)\n/\\',body,re.S) or re.search(r'queue = (.*)',body,re.S)).group(1))
    outm=re.findall(r'what \|-> "(\w+)",\s*nid \|-> "(\w+)",\s*type \|-> "\w+",\s*state \|-> "(\w+)"',body)
    ev=re.search(r'ev \|-> (\[.*?\])',body,re.S)
    print(states[i],label,'mi',mi.group(1) if mi else '',re.sub(r'\s+',' ',inp.group(1)) if inp else '')
    if la and '"nil"' not in la.group(1).split('kind')[1][:12]: print('     act:',re.sub(r'\s+',' ',la.group(1)), lr.group(1) if lr else '')
    print('      tasks:',' '.join(f'{n}#{k}:{s}' for n,k,s in tasks),' q=',' '.join(f'{n}#{k}' for n,k in q))
    if outm: print('      out:',' '.join(f'{w}:{n}:{s}' for w,n,s in outm))
m=re.search(r'Error: (.*)',out)
print(m.group(1) if m else '')
