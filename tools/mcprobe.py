#!/usr/bin/env python3
"""Run TLC once per invariant (in parallel) and summarise: which hold, which fail, first trace.
usage: mcprobe.py <base.cfg> <models.ndjson> [--inv A,B,..] [--workers N] [--timeout S] [--set K=V ...]"""
import os, re, subprocess, sys, concurrent.futures, time

def main():
    base, models = sys.argv[1], sys.argv[2]
    args = sys.argv[3:]
    invs = None; workers = 2; tmo = 600; sets = {}
    while args:
        a = args.pop(0)
        if a == '--inv': invs = args.pop(0).split(',')
        elif a == '--workers': workers = int(args.pop(0))
        elif a == '--timeout': tmo = int(args.pop(0))
        elif a == '--set':
            k, v = args.pop(0).split('=', 1); sets[k] = v
    text = open(base).read()
    all_invs = re.findall(r'^(?:INVARIANT|PROPERTY)\s+(\S+)', text, re.M)
    if invs is None: invs = all_invs
    body = re.sub(r'^(?:INVARIANT|PROPERTY)\s+\S+\n', '', text, flags=re.M)
    for k, v in sets.items():
        body = re.sub(r'^(\s*%s\s*=).*$' % re.escape(k), r'\1 ' + v, body, flags=re.M)
    os.makedirs('/verif/.work/probe', exist_ok=True)
    def run(inv):
        kind = 'PROPERTY' if re.search(r'^PROPERTY\s+%s$' % inv, text, re.M) else 'INVARIANT'
        cfg = f'/verif/.work/probe/{inv}.cfg'
        open(cfg, 'w').write(body + f'\n{kind} {inv}\n')
        env = dict(os.environ, MODELS=models)
        t0 = time.time()
        try:
            p = subprocess.run(['tlc', '-workers', str(workers), '-metadir', f'/verif/.work/probe/md-{inv}', '-cleanup',
                                '-noGenerateSpecTE', '-config', cfg, 'MCActs.tla'], cwd='/verif/spec', env=env,
                               capture_output=True, text=True, timeout=tmo)
            out = p.stdout
        except subprocess.TimeoutExpired as e:
            out = (e.stdout or b'').decode() if isinstance(e.stdout, bytes) else (e.stdout or '')
            out += '\nTIMEOUT'
        open(f'/verif/.work/probe/{inv}.out', 'w').write(out)
        m = re.search(r'(\d+) states generated, (\d+) distinct', out)
        st = m.group(2) if m else '?'
        if 'is violated' in out or 'Error:' in out:
            first = re.search(r'Error: (.*)', out).group(1)[:100]
            # action labels of the trace
            labels = re.findall(r'^State \d+: <(\S+)', out, re.M)
            return inv, 'FAIL', st, time.time() - t0, first, len(labels)
        if 'TIMEOUT' in out: return inv, 'TIMEOUT', st, time.time() - t0, '', 0
        return inv, 'ok', st, time.time() - t0, '', 0
    with concurrent.futures.ThreadPoolExecutor(max_workers=max(1, 16 // workers)) as ex:
        for r in ex.map(run, invs):
            print('%-26s %-7s states=%-8s %5.0fs %s (trace %d)' % r)

main()
