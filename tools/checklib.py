"""Shared machinery of ./check (see ../check and DESIGN.md sections 5 and 9)."""
import concurrent.futures
import glob
import hashlib
import json
import os
import re
import shutil
import subprocess
import sys
import time

VERIF = os.path.dirname(os.path.dirname(os.path.abspath(__file__)))
REPO = '/repo'
SPEC = VERIF + '/spec'
WORK = VERIF + '/.work'
CACHE = VERIF + '/.cache'
HARNESS = VERIF + '/harness/target/debug/acts-verif-harness'
JOPTS = '-Xss1g -Dtlc2.tool.queue.IStateQueue=StateDeque'
NCPU = os.cpu_count() or 4

T0 = time.time()


class ToolError(Exception):
    pass


def log(*a):
    print('[check %5.1fs]' % (time.time() - T0), *a, file=sys.stderr, flush=True)


def sh(cmd, cwd=None, env=None, timeout=None, check=False):
    e = dict(os.environ)
    e.update({'CARGO_NET_OFFLINE': 'true'})
    if env:
        e.update(env)
    try:
        p = subprocess.run(cmd, cwd=cwd, env=e, capture_output=True, text=True, timeout=timeout)
    except subprocess.TimeoutExpired as ex:
        out = ex.stdout.decode() if isinstance(ex.stdout, bytes) else (ex.stdout or '')
        raise ToolError('timeout after %ss: %s\n%s' % (timeout, ' '.join(cmd)[:200], out[-2000:]))
    if check and p.returncode != 0:
        raise ToolError('command failed (%d): %s\n%s\n%s' % (p.returncode, ' '.join(cmd)[:300],
                                                            p.stdout[-3000:], p.stderr[-3000:]))
    return p


# --------------------------------------------------------------------------------------------
# build, hashing, families


def build_harness():
    lock = VERIF + '/harness/Cargo.lock'
    if not os.path.exists(lock):
        shutil.copy(REPO + '/Cargo.lock', lock)
    p = sh(['cargo', 'build', '--offline'], cwd=VERIF + '/harness', timeout=1800)
    if p.returncode != 0:
        raise ToolError('harness build failed (does /repo compile with --features verif?)\n' + p.stderr[-4000:])
    return HARNESS


def files_hash(paths):
    h = hashlib.sha1()
    for root in paths:
        if os.path.isfile(root):
            files = [root]
        else:
            files = sorted(f for f in glob.glob(root + '/**/*', recursive=True) if os.path.isfile(f))
        for f in files:
            if '/target/' in f or f.endswith('.ndjson'):
                continue
            h.update(f.encode())
            with open(f, 'rb') as fh:
                h.update(fh.read())
    return h.hexdigest()[:16]


def tree_hash():
    return files_hash([REPO + '/acts/src', REPO + '/acts/Cargo.toml', REPO + '/store/sqlite/src',
                       REPO + '/Cargo.toml', VERIF + '/harness/src', VERIF + '/harness/Cargo.toml',
                       VERIF + '/gen', VERIF + '/regress'])


def spec_hash():
    return files_hash([SPEC, VERIF + '/gen', VERIF + '/tools/checklib.py'])


def family(name, limit=None, seed=0):
    os.makedirs(CACHE + '/families', exist_ok=True)
    tag = name.replace('+', '_') + ('' if limit is None else '-l%d-s%d' % (limit, seed))
    path = '%s/families/%s-%s.ndjson' % (CACHE, tag, files_hash([VERIF + '/gen']))
    if not os.path.exists(path):
        cmd = ['python3', VERIF + '/gen/gen.py', name, path + '.tmp']
        if limit is not None:
            cmd += ['--limit', str(limit), '--seed', str(seed)]
        sh(cmd, check=True, timeout=600)
        os.replace(path + '.tmp', path)
    return path


def count_lines(path):
    with open(path) as fh:
        return sum(1 for _ in fh)


# --------------------------------------------------------------------------------------------
# TLC


def tlc(module, cfg_text, tag, env=None, workers=1, timeout=900, extra=None, java_opts=None):
    os.makedirs(WORK + '/cfg', exist_ok=True)
    cfg = '%s/cfg/%s.cfg' % (WORK, tag)
    with open(cfg, 'w') as fh:
        fh.write(cfg_text)
    meta = '%s/tlc-%s' % (WORK, tag)
    shutil.rmtree(meta, ignore_errors=True)
    e = dict(env or {})
    if java_opts:
        e['JAVA_TOOL_OPTIONS'] = java_opts
    cmd = ['tlc', '-workers', str(workers), '-metadir', meta, '-cleanup', '-noGenerateSpecTE',
           '-config', cfg] + (extra or []) + [module]
    t = time.time()
    p = sh(cmd, cwd=SPEC, env=e, timeout=timeout)
    shutil.rmtree(meta, ignore_errors=True)
    out = p.stdout
    with open('%s/cfg/%s.out' % (WORK, tag), 'w') as fh:
        fh.write(out)
    return out, time.time() - t


def tlc_stats(out):
    m = re.search(r'(\d+) states generated, (\d+) distinct states found', out)
    if not m:
        return 0, 0
    return int(m.group(2)), int(m.group(1))


MC_CONSTANTS = '''SPECIFICATION Spec
CONSTANTS
  Models <- MCModels
  InputSets <- MCInputSets
  Pids = {%(pids)s}
  TopPids = {%(tops)s}
  StartAny = %(startany)s
  MaxActions = %(budget)d
  ActionKinds = {%(kinds)s}
  ErrCodes = {"e1", "e2"}
  Deviations = {}
  SharedCatchPrev = FALSE
  AdvSet = {%(adv)s}
  MaxTime = %(maxtime)d
  Grid = {%(grid)s}
  MaxInst = 2
  Keep = %(keep)s
  WithEvict = %(evict)s
VIEW View
CONSTRAINT ClockGrid
CONSTRAINT InstBound
CHECK_DEADLOCK FALSE
'''

ALL_KINDS = ['complete', 'submit', 'remove', 'skip', 'error', 'abort', 'back', 'cancel']

# property -> (invariants, action properties)
CORE = {
    'C01': (['C01_QuiescentOK'], []),
    'C02': (['C02_Lifecycle'], []),
    'C03': (['C03_ParentDone', 'C03_ProcMirrorsRoot', 'C03_Events', 'C03_TerminalEvent', 'C03_CleanEnding'], []),
    'C04': (['C04_Outcome', 'C04_Order', 'C01_QuiescentOK'], []),
    'C05': (['C05_Admission', 'C05_TerminalRejected', 'C05_AtMostOnce', 'C05_NoDupSuccessor'], ['C05_RejectedIsNoop', 'C05_LiveProcess']),
    'C06': (['C06_Propagates', 'C06_CatchMatches', 'C06_Taken', 'C06_CatchStepsOnce', 'C06_CaughtCompletes'], []),
    'C08': (['C08_AtMostOne', 'C08_CreatedFirst', 'C08_TerminalReported', 'C08_BranchSilent', 'C08_MsgAct',
             'C08_ParentFirst'], []),
    'C19': (['C19_Once', 'C19_NeverEarly', 'C19_OnlyOpen', 'C19_Prompt'], ['C19_TickKeepsStates']),
    'C11': (['C11_Image'], []),
    # C12 at the level of the specification: Evict is a stuttering step by construction; what makes that
    # sound is that nothing exists in memory only at a quiescent point (C11_Image with evictions enabled)
    'C12': (['C11_Image', 'C01_QuiescentOK'], []),
    'C17': (['C17_Retention', 'C17_Refused', 'C03_Events'], []),
    'C15': (['C15_StaysOpen', 'C15_NoAutoComplete', 'C15_AtMostOnce', 'C15_Returned', 'C15_ChildInputs',
             'C15_ParentLast', 'C01_QuiescentOK', 'C05_NoDupSuccessor'], ['C15_ReturnMatches']),
    'C13': (['C01_QuiescentOK', 'C03_Events', 'C04_Outcome', 'C08_AtMostOne', 'C11_Image', 'C05_NoDupSuccessor'], ['C13_OnlyOwn', 'C13_DupRefused']),
}

# which trace group a property's conformance leg uses (default: core)
GROUP = {'C19': 'clock', 'C11': 'store', 'C12': 'store', 'C17': 'store', 'C13': 'multi', 'C15': 'multi'}

# retention, admission and the quiescence rule also hold for child processes and side-by-side processes
ALSO = {'C17': ['multi'], 'C01': ['multi'], 'C05': ['multi', 'store'], 'C03': ['multi'], 'C04': ['loops'], 'C11': ['core']}

TIERS = {
    # mc: list of (family, client action budget); rand: list of (family, runs, shards)
    'quick': dict(mc=[('hand+core6', 1), ('handseq', 2)], mc_workers=8, mc_timeout=900,
                  mc_clock=[('timed', 1), ('timedunits', 0)],
                  mc_store=[('hand+core6', 1, 'TRUE'), ('handseq', 2, 'FALSE')],   # (family, budget, Keep)
                  store=dict(explore=[('handseq', 1, 4, 1, ['--evict'])],
                             rand=[('hand', 500, 2, ['--evict']), ('core6', 900, 2, ['--evict']),
                                   ('timed', 600, 2, ['--evict']),
                                   ('hand', 500, 2, ['--nokeep']), ('core6', 600, 2, ['--nokeep'])],
                             rand_budget=3, rand_pact=0.3, nat_runs=0),
                  clock=dict(explore=[('timedsmall', 0, 4, 2)], rand=[('timed+timedunits', 1200, 3)], rand_budget=2,
                             rand_pact=0.2, nat_runs=0),
                  # (family, budget, Keep, Pids, TopPids, StartAny)
                  mc_multi=[('subflow', 2, 'TRUE', 'p1,c1,d1,g1', 'p1', 'FALSE'), ('subflow', 1, 'FALSE', 'p1,c1,d1,g1', 'p1', 'FALSE'),
                            ('multi', 1, 'TRUE', 'p1,p2', 'p1,p2', 'TRUE')],
                  # multi: (family, runs, shards, flags) of the multi-process driver
                  multi=dict(multi_runs=[('subflow', 400, 2, ['--budget', '2']), ('subflow', 300, 1, ['--budget', '2', '--nokeep']),
                                    ('multi', 300, 2, ['--tops', '3', '--dups', '--budget', '2']),
                                    ('multi', 150, 1, ['--tops', '3', '--budget', '1', '--cap', '1']),
                                    ('multi', 150, 1, ['--tops', '3', '--budget', '1', '--cap', '1', '--nokeep']),
                                    ('multi', 1500, 3, ['--natural'])],
                             rand=[], explore=[], rand_budget=0, rand_pact=0, nat_runs=0),
                  # backward `next` jumps: second instances of nodes (few short runs: OBSERVE is slow on them)
                  loops=dict(rand=[('loops', 16, 4, ['--steps', '36'])], explore=[], rand_budget=1, rand_pact=0.1, nat_runs=0),
                  explore=[('handseq', 2, 10, 2)],      # (family, client budget, processes, files per process)
                  rand=[('hand', 600, 2), ('core6', 1800, 4)], rand_budget=4, rand_pact=0.35,
                  nat_family='hand+core6', nat_runs=1000, nat_shards=2),
    'thorough': dict(mc=[('hand+core7', 2), ('handseq', 3)], mc_workers=12, mc_timeout=7200,
                     mc_clock=[('timed', 2), ('timedunits', 1)],
                     mc_store=[('hand+core7', 2, 'TRUE'), ('hand+core6', 2, 'FALSE')],
                     store=dict(explore=[('handseq', 2, 12, 4, ['--evict']), ('handseq', 2, 8, 2, ['--nokeep'])],
                                rand=[('hand', 6000, 4, ['--evict']), ('core7', 20000, 6, ['--evict']),
                                      ('timed+timedunits', 8000, 4, ['--evict']),
                                      ('hand', 4000, 2, ['--nokeep']), ('core7', 10000, 4, ['--nokeep'])],
                                rand_budget=4, rand_pact=0.3, nat_runs=0),
                     clock=dict(explore=[('timed', 2, 12, 4), ('timedunits', 1, 4, 1)],
                                rand=[('timed+timedunits', 20000, 6)], rand_budget=4, rand_pact=0.25, nat_runs=0),
                     mc_multi=[('subflow', 3, 'TRUE', 'p1,c1,d1,g1', 'p1', 'FALSE'), ('subflow', 2, 'FALSE', 'p1,c1,d1,g1', 'p1', 'FALSE'),
                               ('multi', 2, 'TRUE', 'p1,p2', 'p1,p2', 'TRUE'), ('multi', 0, 'TRUE', 'p1,p2,p3', 'p1,p2,p3', 'TRUE')],
                     multi=dict(multi_runs=[('subflow', 6000, 4, ['--budget', '3']), ('subflow', 4000, 3, ['--budget', '2', '--nokeep']),
                                       ('multi', 4000, 4, ['--tops', '3', '--dups', '--budget', '3']),
                                       ('multi', 2000, 2, ['--tops', '3', '--budget', '2', '--cap', '1']),
                                       ('multi', 2000, 2, ['--tops', '3', '--budget', '2', '--cap', '2', '--nokeep']),
                                       ('multi', 30000, 8, ['--natural'])],
                                rand=[], explore=[], rand_budget=0, rand_pact=0, nat_runs=0),
                     loops=dict(rand=[('loops', 120, 12, ['--steps', '48'])], explore=[], rand_budget=2, rand_pact=0.15, nat_runs=0),
                     explore=[('handseq', 3, 14, 4), ('hand', 1, 14, 4), ('core6', 1, 8, 2)],
                     rand=[('hand', 12000, 4), ('core7+branchy', 40000, 10)], rand_budget=5,
                     rand_pact=0.35, nat_family='hand+core7', nat_runs=20000, nat_shards=4),
}


def mc_check(prop, tier):
    """TLC on the specification, one run per (family, budget) of the tier; stops at the first violated run."""
    t = TIERS[tier]
    runs = []
    g = GROUP.get(prop)
    plan = t['mc_clock'] if g == 'clock' else t['mc_store'] if g == 'store' else t['mc_multi'] if g == 'multi' else t['mc']
    for i, item in enumerate(plan):
        famname, budget = item[0], item[1]
        keep = item[2] if len(item) > 2 else 'TRUE'
        if prop == 'C11' and keep == 'FALSE':
            continue
        r = mc_one(prop, tier, famname, budget, i, keep, 'TRUE' if prop == 'C12' else 'FALSE',
                   pids=item[3:6] if len(item) > 5 else None)
        runs.append(r)
        if r['violated']:
            break
    last = runs[-1]
    return dict(states=sum(r['states'] for r in runs), transitions=sum(r['transitions'] for r in runs),
                violated=last['violated'], trace_json=last['trace_json'], wall=sum(r['wall'] for r in runs),
                family=last['family'], models=sum(r['models'] for r in runs), budget=[r['budget'] for r in runs],
                invariants=last['invariants'],
                runs=[dict(family=os.path.basename(r['family']), models=r['models'], budget=r['budget'],
                           states=r['states'], transitions=r['transitions'], wall=round(r['wall'], 1)) for r in runs])


def mc_one(prop, tier, famname, budget, idx, keep='TRUE', evict='FALSE', pids=None):
    invs, props = CORE[prop]
    t = TIERS[tier]
    fam = family(famname)
    adv, grid = set(), {0}
    for ln in open(fam):
        c = json.loads(ln).get('clock') or {}
        adv |= set(c.get('adv', []))
        grid |= set(c.get('grid', []))
    q = lambda names: ', '.join('"%s"' % x for x in names.split(','))
    kinds = ALL_KINDS if pids is None else ['complete', 'skip', 'error', 'abort']
    cfg = MC_CONSTANTS % dict(budget=budget, kinds=', '.join('"%s"' % k for k in kinds),
                              pids=q(pids[0]) if pids else '"p1"', tops=q(pids[1]) if pids else '"p1"',
                              startany=pids[2] if pids else 'FALSE',
                              adv=', '.join(str(x) for x in sorted(adv)), maxtime=max(grid),
                              grid=', '.join(str(x) for x in sorted(grid)), keep=keep, evict=evict)
    cfg += ''.join('INVARIANT %s\n' % i for i in invs) + ''.join('PROPERTY %s\n' % p for p in props)
    tag = 'mc-%s-%s-%d' % (prop, tier, idx)
    dump = '%s/cfg/%s.trace.json' % (WORK, tag)
    if os.path.exists(dump):
        os.remove(dump)
    out, wall = tlc('MCActs.tla', cfg, tag, env={'MODELS': fam}, workers=t['mc_workers'],
                    timeout=t['mc_timeout'], extra=['-dumpTrace', 'json', dump])
    states, trans = tlc_stats(out)
    violated = None
    m = re.search(r'Error: (?:Invariant|Action property) (\S+) is violated', out)
    if m:
        violated = m.group(1)
    elif 'Error:' in out or states == 0:
        raise ToolError('TLC failed on %s:\n%s' % (tag, out[-3000:]))
    return dict(states=states, transitions=trans, violated=violated, trace_json=dump if violated else None,
                wall=wall, family=fam, models=count_lines(fam), budget=budget, invariants=invs + props)


# --------------------------------------------------------------------------------------------
# traces: recorded once per (tree, tier, seed), validated once, shared by the core checks

TRACE_CFG = '''SPECIFICATION %(spec)s
CONSTANTS
  Models <- TraceModels
  InputSets <- TraceInputSets
  Pids = {"p1", "p2", "p3", "p4", "p5", "p6", "p7", "p8", "p9", "p10", "p11", "p12", "p13", "p14", "p15", "p16", "c1", "d1", "g1"}
  TopPids = {"p1"}
  StartAny = FALSE
  MaxActions = 100000
  ActionKinds = {"complete"}
  ErrCodes = {"e1", "e2"}
  Deviations = {}
  SharedCatchPrev = FALSE
  AdvSet = {1}
  MaxTime = 0
  Keep = %(keep)s
  WithEvict = TRUE
POSTCONDITION %(post)s
CHECK_DEADLOCK FALSE
'''


def split_scenarios(path):
    """list of (start_line_index, end_line_index) per scenario (0-based, end exclusive)"""
    idx = []
    with open(path) as fh:
        for i, line in enumerate(fh):
            if line.startswith('{"cfg"') or '"ev":"model"' in line[:400] or '"ev": "model"' in line[:400]:
                if '"ev":"model"' in line or '"ev": "model"' in line:
                    idx.append(i)
    n = count_lines(path)
    return [(idx[i], idx[i + 1] if i + 1 < len(idx) else n) for i in range(len(idx))]


def strict_validate(path, tag):
    """STRICT over one trace file. A rejected scenario is recorded as drift and the rest of the file
    is still examined. Returns dict(lines, scenarios, accepted, drift=[{scenario, name, line, detail}])."""
    lines = open(path).read().split('\n')
    if lines and lines[-1] == '':
        lines.pop()
    # a scenario starts at its model line, or at the first of the submodel lines before it
    hdr = [('"ev":"model"' in ln[:200] or '"ev":"submodel"' in ln[:200]) for ln in lines]
    sub = ['"ev":"submodel"' in ln[:200] for ln in lines]
    scen = [i for i in range(len(lines)) if hdr[i] and not (i > 0 and sub[i - 1])]
    drift = []
    start = 0          # index into scen of the first scenario of the current attempt
    cur = path
    attempt = 0
    total_wall = 0.0
    while start < len(scen) and attempt < 40:
        attempt += 1
        if start > 0:
            cur = '%s.rest%d' % (path, attempt)
            with open(cur, 'w') as fh:
                fh.write('\n'.join(lines[scen[start]:]) + '\n')
        cfg = TRACE_CFG % dict(spec='TraceSpec', post='TraceAccepted', keep='FALSE' if 'nokeep' in path else 'TRUE')
        out, wall = tlc('TraceActs.tla', cfg, '%s-strict%d' % (tag, attempt), env={'TRACE': cur}, workers=1,
                        timeout=1800, java_opts=JOPTS)
        total_wall += wall
        if cur != path:
            os.remove(cur)
        if '"ACCEPTED"' in out:
            break
        m = re.search(r'"matched",\s*(\d+),', out)
        if not m:
            raise ToolError('STRICT run failed on %s:\n%s' % (path, out[-3000:]))
        matched = int(m.group(1))                 # lines matched in the current file
        bad_line = scen[start] + matched          # 0-based index in the whole file of the unmatched line
        k = max(i for i in range(len(scen)) if scen[i] <= bad_line)
        mm = re.search(r'<<\s*"MISMATCH".*?>>\s*\n', out, re.S)
        name = ''
        try:
            name = json.loads(lines[scen[k]]).get('name', '')
        except Exception:
            pass
        drift.append(dict(scenario=k, name=name, line=bad_line + 1,
                          detail=re.sub(r'\s+', ' ', mm.group(0))[:600] if mm else ''))
        start = k + 1
    return dict(lines=len(lines), scenarios=len(scen), drift=drift, wall=total_wall,
                accepted=len(scen) - len(drift))


def observe_validate(path, tag):
    cfg = TRACE_CFG % dict(spec='ObsSpec', post='ObsDone', keep='FALSE' if 'nokeep' in path else 'TRUE')
    out, wall = tlc('Observe.tla', cfg, '%s-obs' % tag, env={'TRACE': path}, workers=1, timeout=1800,
                    java_opts=JOPTS)
    obs = []
    done = False
    for ln in out.split('\n'):
        ln = ln.strip()
        if ln.startswith('"OBS|'):
            parts = json.loads(ln).split('|')
            if parts[1] == 'DONE':
                done = True
            elif parts[1] in ('VIOLATION', 'KNOWN'):
                obs.append(dict(kind=parts[1], prop=parts[2], scenario=int(parts[3]), line=int(parts[4]),
                                step=parts[5], pid=parts[6], task=parts[7],
                                kf=re.findall(r'"(\w+)"', parts[8])))
    if not done:
        raise ToolError('OBSERVE run failed on %s:\n%s' % (path, out[-3000:]))
    return dict(obs=obs, wall=wall)


def record_traces(tier, seed, key, group='core'):
    """run the tier's scenario set on the engine; returns the list of trace files"""
    t = TIERS[tier]
    if group != 'core':
        t = dict(t[group], nat_family=None)
    d = '%s/traces/%s' % (CACHE, key)
    os.makedirs(d, exist_ok=True)
    files = []
    jobs = []
    # 1. regression behaviours of fixed and known defects (spec -> impl replay)
    reg_models = VERIF + '/regress/models.ndjson'
    reg_beh = VERIF + '/regress/behaviours.ndjson'
    if os.path.exists(reg_beh) and group == 'core':
        out = d + '/regress.ndjson'
        jobs.append((out, [HARNESS, 'replay', '--models', reg_models, '--behaviours', reg_beh, '--out', out,
                           '--drain', '--workdir', d + '/run']))
    # 2. seeded random gated runs (impl -> spec)
    n = 0
    for item in t['rand']:
        famname, runs, shards = item[:3]
        flags = item[3] if len(item) > 3 else []
        tagx = ''.join(f.replace('--', '-') for f in flags)
        fam = family(famname)
        nmodels = count_lines(fam)
        per = (runs + shards - 1) // shards
        for i in range(shards):
            out = '%s/rand%s-%02d.ndjson' % (d, tagx, n)
            kinds = ','.join(ALL_KINDS + ['complete', 'complete', 'abort', 'error', 'error', 'skip'])
            jobs.append((out, [HARNESS, 'random', '--models', fam, '--out', out, '--runs', str(per),
                               '--seed', str(seed * 1000 + n), '--offset', str((i * per) % nmodels),
                               '--pact', str(t['rand_pact']), '--budget', str(t['rand_budget']), '--kinds', kinds,
                               '--workdir', d + '/run'] + flags))
            n += 1
    # 2b. exhaustive exploration of the IMPLEMENTATION for the small families: every reachable
    #     (state, choice) pair under the gate, up to the client budget
    for item in t.get('explore', []):
        famname, budget, shards, split = item[:4]
        flags = item[4] if len(item) > 4 else []
        tagx = ''.join(f.replace('--', '-') for f in flags)
        fam = family(famname)
        for i in range(shards):
            out = '%s/expl-%s-b%d%s-%02d.ndjson' % (d, famname, budget, tagx, i)
            jobs.append(([out + '.%d' % k for k in range(split)] if split > 1 else [out],
                         [HARNESS, 'explore', '--models', fam, '--out', out, '--budget', str(budget),
                          '--kinds', ','.join(ALL_KINDS), '--shard', str(i), '--shards', str(shards),
                          '--split', str(split), '--max-runs', '200000', '--workdir', d + '/run'] + flags))
    # 2c. several processes in one engine, sub-workflow calls (C13, C15)
    for j, item in enumerate(t.get('multi_runs', [])):
        famname, runs, shards, flags = item
        tagx = ''.join(f.replace('--', '-') for f in flags if f.startswith('--'))
        fam = family(famname)
        per = (runs + shards - 1) // shards
        for i in range(shards):
            out = '%s/multi%d%s-%02d.ndjson' % (d, j, tagx, i)
            jobs.append((out, [HARNESS, 'multi', '--models', fam, '--out', out, '--runs', str(per),
                               '--seed', str(seed * 1000 + 700 + 10 * j + i), '--offset', str(i * per),
                               '--kinds', 'complete,error,abort,skip', '--workdir', d + '/run'] + flags))
    fam = family(t['nat_family'] or 'hand')
    nmodels = count_lines(fam)

    # 3. ungated runs on current-thread and 1..8-worker runtimes (thread-count independence);
    #    one process at a time per harness process, so few shards
    per = (t['nat_runs'] + t.get('nat_shards', 1) - 1) // t.get('nat_shards', 1)
    for i in range(t.get('nat_shards', 1) if t['nat_runs'] else 0):
        out = '%s/nat-%02d.ndjson' % (d, i)
        jobs.append((out, [HARNESS, 'natural', '--models', fam, '--out', out, '--runs', str(per),
                           '--seed', str(seed * 1000 + 500 + i), '--offset', str((i * per) % nmodels),
                           '--workdir', d + '/run']))

    def run(job):
        outs, cmd = job
        if isinstance(outs, str):
            outs = [outs]
        p = sh(cmd, timeout=900 if tier == 'quick' else 5400)
        if p.returncode != 0 or not all(os.path.exists(o) for o in outs):
            raise ToolError('harness failed: %s\n%s' % (' '.join(cmd), p.stderr[-3000:]))
        return [o for o in outs if os.path.getsize(o) > 0]

    with concurrent.futures.ThreadPoolExecutor(max_workers=min(NCPU, 14)) as ex:
        files = [f for fs in ex.map(run, jobs) for f in fs]
    shutil.rmtree(d + '/run', ignore_errors=True)
    return files


def ensure_traces(tier, seed, group='core'):
    """traces + STRICT + OBSERVE results for the current tree, cached"""
    key = '%s-%s-%s-s%d-%s' % (tree_hash(), group, tier, seed, spec_hash())
    d = '%s/traces/%s' % (CACHE, key)
    res_path = d + '/results.json'
    if os.path.exists(res_path):
        log('traces: cached', key)
        return json.load(open(res_path))
    # keep the cache small: drop older trace sets
    olds = sorted((p for p in glob.glob(CACHE + '/traces/*-%s-%s-*' % (group, tier)) if os.path.basename(p) != key),
                  key=os.path.getmtime)
    for old in olds[:-1]:
        shutil.rmtree(old, ignore_errors=True)
    t0 = time.time()
    files = record_traces(tier, seed, key, group)
    log('traces: recorded %d files in %.0fs' % (len(files), time.time() - t0))

    def validate(f):
        tag = 'tr-' + os.path.basename(f).replace('.ndjson', '').replace('.', '_')
        if os.path.basename(f).startswith('nat-') or '-natural' in os.path.basename(f):
            # natural runs record one step per quiescent point: nothing for STRICT to match
            n = count_lines(f)
            sc = sum(1 for ln in open(f) if '"ev":"model"' in ln)
            s = dict(lines=n, scenarios=sc, drift=[], wall=0.0, accepted=0, natural=True)
        else:
            s = strict_validate(f, tag)
        o = observe_validate(f, tag)
        return dict(file=f, strict=s, observe=o)

    with concurrent.futures.ThreadPoolExecutor(max_workers=min(NCPU, 14)) as ex:
        results = list(ex.map(validate, files))
    res = dict(key=key, dir=d, files=results, wall=time.time() - t0)
    with open(res_path, 'w') as fh:
        json.dump(res, fh)
    log('traces: validated in %.0fs' % (time.time() - t0))
    return res


def scenario_lines(path, k):
    """the scenario whose model (or submodel) line is the k-th such line of a trace file (1-based, as
    OBSERVE counts); submodel lines belong to the scenario of the model line that follows them"""
    scen, cur, n, hit = [], [], 0, False
    prev_sub = False
    with open(path) as fh:
        for line in fh:
            is_sub = '"ev":"submodel"' in line[:200]
            is_model = '"ev":"model"' in line[:200]
            if (is_sub or is_model) and not prev_sub:
                if hit:
                    return cur
                cur = []
            if is_sub or is_model:
                n += 1
                if n == k:
                    hit = True
            cur.append(line)
            prev_sub = is_sub
    return cur if hit else []


# --------------------------------------------------------------------------------------------
# known findings


def known_findings():
    path = VERIF + '/known_findings.json'
    if not os.path.exists(path):
        return {}
    data = json.load(open(path))
    return {f['id']: f for f in data.get('findings', [])}


# --------------------------------------------------------------------------------------------
# evidence


def write_evidence(prop, tier, seed, level, coverage, violations, assumptions=None):
    os.makedirs(VERIF + '/evidence', exist_ok=True)
    ev = dict(property_id=prop, tier=tier, seed=seed, level=level, coverage=coverage,
              assumptions=assumptions or [], wall_s=round(time.time() - T0, 1), violations=violations)
    with open('%s/evidence/%s.json' % (VERIF, prop), 'w') as fh:
        json.dump(ev, fh, indent=1)


def replay_file(prop, tier, seed, what, payload):
    os.makedirs(WORK + '/replay', exist_ok=True)
    n = 0
    while True:
        path = '%s/replay/%s-%s-%d%s.json' % (WORK, prop, tier, int(time.time()), '-%d' % n if n else '')
        if not os.path.exists(path):
            break
        n += 1
    with open(path, 'w') as fh:
        json.dump(dict(property=prop, tier=tier, seed=seed, what=what, **payload), fh, indent=1)
    return path


# --------------------------------------------------------------------------------------------
# the core properties (C01..C08 on Acts.tla)


def prefix_of(invname):
    return invname.split('_')[0]


def check_core(prop, tier, seed):
    kf = known_findings()
    build_harness()
    violations = []      # (what, replay path)
    known_seen = {}

    # leg 1: the specification
    mc = mc_check(prop, tier)
    log('model checking: %d distinct states, %d transitions, %.0fs, violated=%s' %
        (mc['states'], mc['transitions'], mc['wall'], mc['violated']))

    # legs 2+3: the implementation
    tr = ensure_traces(tier, seed, GROUP.get(prop, 'core'))
    # ... and the traces of further groups in which the property is at stake as well
    for g2 in ALSO.get(prop, []):
        tr2 = ensure_traces(tier, seed, g2)
        tr = dict(tr, files=tr['files'] + tr2['files'], wall=tr['wall'] + tr2['wall'])
    n_nat = sum(f['strict']['scenarios'] for f in tr['files'] if f['strict'].get('natural'))
    n_scen = sum(f['strict']['scenarios'] for f in tr['files'])
    n_lines = sum(f['strict']['lines'] for f in tr['files'])
    n_acc = sum(f['strict']['accepted'] for f in tr['files'])
    drift = [dict(d, file=f['file']) for f in tr['files'] for d in f['strict']['drift']]
    samples = []
    for f in tr['files']:
        for o in f['observe']['obs']:
            # the property's own formulas; for the multi-process properties also the per-process
            # formulas they are judged by (CORE lists them)
            if prefix_of(o['prop']) != prop and not (GROUP.get(prop) == 'multi' and o['prop'] in CORE[prop][0] + CORE[prop][1]
                                                      and '/multi' in f['file']):
                continue
            if o['kind'] == 'KNOWN' and all(k in kf and kf[k]['status'] == 'open' for k in o['kf']):
                for k in o['kf']:
                    known_seen.setdefault(k, 0)
                    known_seen[k] += 1
                continue
            lines = scenario_lines(f['file'], o['scenario'])
            path = replay_file(prop, tier, seed, 'observed behaviour of the implementation violates ' + o['prop'],
                               dict(formula=o['prop'], task=o['task'], step=o['step'], findings=o['kf'],
                                    trace=[json.loads(x) for x in lines]))
            violations.append((o['prop'], path))

    # C12 is defined against the uninterrupted run, i.e. against the specification, in which a reload
    # is a stuttering step: a step the specification cannot follow AFTER an eviction is a violation
    if prop == 'C12':
        for dr in drift:
            lines = scenario_lines(dr['file'], dr['scenario'] + 1)
            recs = [json.loads(x) for x in lines]
            first_line = dr['line'] - (sum(1 for _ in open(dr['file'])) - 0) if False else None
            # position of the unmatched line inside the scenario
            start = 0
            with open(dr['file']) as fh:
                n = 0
                for i, ln in enumerate(fh):
                    if '"ev":"model"' in ln:
                        n += 1
                        if n == dr['scenario'] + 1:
                            start = i
                            break
            upto = dr['line'] - 1 - start
            if any(r.get('a') == 'Evict' for r in recs[:max(upto, 0)]):
                path = replay_file(prop, tier, seed, 'after an eviction the reloaded process does not continue as the '
                                   'uninterrupted one (the specification cannot follow the step)',
                                   dict(formula='STRICT after Evict', unmatched_line_in_scenario=upto, detail=dr['detail'],
                                        trace=recs))
                violations.append(('reload', path))

    # a violation on the specification: replay the counterexample on the engine
    if mc['violated']:
        beh = '%s/cfg/mc-%s-%s.beh.ndjson' % (WORK, prop, tier)
        log('replaying the counterexample of the specification on the engine')
        p = sh(['python3', VERIF + '/tools/cex2beh.py', mc['trace_json'], 'cex-' + prop], check=True)
        with open(beh, 'w') as fh:
            fh.write(p.stdout)
        out = '%s/cfg/mc-%s-%s.replay.ndjson' % (WORK, prop, tier)
        sh([HARNESS, 'replay', '--models', mc['family'], '--behaviours', beh, '--out', out, '--workdir',
            WORK + '/run'], check=True, timeout=600)
        o = observe_validate(out, 'cex-' + prop)
        s = strict_validate(out, 'cex-' + prop)
        hits = [x for x in o['obs'] if x['prop'] == mc['violated'] and
                not (x['kind'] == 'KNOWN' and all(k in kf and kf[k]['status'] == 'open' for k in x['kf']))]
        if hits:
            path = replay_file(prop, tier, seed, 'counterexample of the specification reproduced on the engine: '
                               + mc['violated'], dict(formula=mc['violated'], behaviour=json.loads(p.stdout),
                                                      trace=[json.loads(x) for x in open(out)]))
            violations.append((mc['violated'], path))
        else:
            raise ToolError('the specification violates %s but the engine does not follow the counterexample '
                            '(STRICT drift=%d): the specification is wrong, not the code. behaviour: %s'
                            % (mc['violated'], len(s['drift']), beh))

    for k, n in sorted(known_seen.items()):
        print('KNOWN-FINDING: property=%s %s: %s (seen in %d observed states)' % (prop, k, kf[k]['what'], n))

    # samples: a few validated behaviours
    for f in tr['files'][:2]:
        for k in (1, 2):
            ls = scenario_lines(f['file'], k)
            if ls:
                recs = [json.loads(x) for x in ls]
                samples.append(dict(model=recs[0].get('name'), inputs=recs[0].get('inputs'),
                                    steps=[[r['a'], r.get('t'), r.get('kind', ''), r['res'][:20]]
                                           for r in recs if r.get('ev') == 'step']))
    coverage = dict(
        states=mc['states'], transitions=mc['transitions'], traces_validated_against_impl=n_acc,
        samples=samples, exhaustive=True,
        model_checking=dict(spec='spec/Acts.tla + spec/ActsProps.tla', invariants=mc['invariants'],
                            runs=mc['runs'], models=mc['models'],
                            client_action_budget=mc['budget'], action_kinds=ALL_KINDS,
                            queue='bag: every arrival order', tlc_wall_s=round(mc['wall'], 1)),
        conformance=dict(scenarios=n_scen, natural_runs_observed=n_nat, trace_lines=n_lines, strict_accepted=n_acc,
                         strict_drift=len(drift), drift_first=drift[:3],
                         observe_violations=len(violations), known_findings_seen=known_seen,
                         trace_set=tr['key']),
        rule='model checking: all reachable states of the family (VIEW canonicalises creation stamps); '
             'conformance: regression behaviours + seeded random gated runs, every step validated STRICT '
             'and every observed state evaluated with the property formulas (OBSERVE)')
    write_evidence(prop, tier, seed, 'model_checking', coverage, len(violations),
                   ['bounded family and client budget as listed', 'client actions serialised with execs (coarse grain)',
                    'JS conditions restricted to the generator grammar'])
    if drift:
        log('STRICT drift in %d scenarios (not a violation by itself), first: %s' % (len(drift), drift[0]))
    for what, path in violations[:5]:
        print('VIOLATION property=%s replay=%s' % (prop, path))
    return 1 if violations else 0


# --------------------------------------------------------------------------------------------
# C09: AckRetry.tla + ack driver

ACK_MC = '''SPECIFICATION Spec
CONSTANTS
  Ids = {%(ids)s}
  MaxRetry = %(max)d
  Interval = 2
  MaxTime = %(maxtime)d
  QueryMode = "sound"
INVARIANT StoredBeforeHandler
INVARIANT Bounded
PROPERTY Redelivery
PROPERTY SilentAfterAck
CHECK_DEADLOCK FALSE
'''
ACK_TRACE = '''SPECIFICATION TSpec
CONSTANTS
  Ids = {%(ids)s}
  MaxRetry = %(max)d
  Interval = 2
  MaxTime = 100000
  QueryMode = "sound"
POSTCONDITION TDone
CHECK_DEADLOCK FALSE
'''


def scenario_lines_by(path, k, marker):
    out, n = [], 0
    with open(path) as fh:
        for line in fh:
            if marker in line:
                n += 1
            if n == k:
                out.append(line)
            elif n > k:
                break
    return out


def check_c09(tier, seed):
    prop = 'C09'
    build_harness()
    quick = tier == 'quick'
    mcs = [(2, 2, 8)] if quick else [(2, 2, 12), (2, 3, 12), (3, 1, 8)]
    states = trans = 0
    mc_runs = []
    for n, mx, mt in mcs:
        out, wall = tlc('AckRetry.tla', ACK_MC % dict(ids=', '.join(str(i) for i in range(1, n + 1)), max=mx, maxtime=mt),
                        'ack-mc-%d-%d' % (n, mx), workers=8, timeout=3000)
        st, tr = tlc_stats(out)
        if 'Error:' in out or st == 0:
            m = re.search(r'Error: (.*)', out)
            raise ToolError('AckRetry.tla does not satisfy its own properties (%s): the specification is wrong\n%s'
                            % (m.group(1) if m else '?', out[-1500:]))
        states += st; trans += tr
        mc_runs.append(dict(ids=n, max_retry=mx, max_time=mt, states=st, transitions=tr, wall=round(wall, 1)))
    log('model checking AckRetry: %d states' % states)
    combos = [(1, 1), (2, 2), (3, 1), (2, 3)] if quick else [(n, m) for n in (1, 2, 3) for m in (1, 2, 3)]
    runs = 80 if quick else 600
    d = '%s/ack-%s' % (WORK, tier)
    shutil.rmtree(d, ignore_errors=True)
    os.makedirs(d)
    jobs = [(b, n, m) for b in ('mem', 'sqlite') for n, m in combos]

    def run(job):
        b, n, m = job
        f = '%s/ack-%s-%d-%d.ndjson' % (d, b, n, m)
        sh([HARNESS, 'ack', '--out', f, '--runs', str(runs), '--ops', '30', '--n', str(n), '--max', str(m),
            '--backend', b, '--seed', str(seed * 100 + n * 10 + m), '--workdir', d + '/run'], check=True, timeout=1800)
        out, wall = tlc('TraceAck.tla', ACK_TRACE % dict(ids=', '.join(str(i) for i in range(1, n + 1)), max=m),
                        'ack-tr-%s-%d-%d' % (b, n, m), env={'TRACE': f}, workers=1, timeout=1800, java_opts=JOPTS)
        if 'ACK|DONE' not in out:
            raise ToolError('TraceAck failed on %s\n%s' % (f, out[-2000:]))
        bad = []
        for ln in out.split('\n'):
            if ln.startswith('"ACK|VIOLATION'):
                p = json.loads(ln).split('|')
                bad.append(dict(what=p[2], scenario=int(p[3]), line=int(p[4])))
        return dict(file=f, backend=b, n=n, max=m, scenarios=runs, lines=count_lines(f), bad=bad)

    with concurrent.futures.ThreadPoolExecutor(max_workers=8) as ex:
        results = list(ex.map(run, jobs))
    violations = []
    for r in results:
        seen = set()
        for b in r['bad']:
            if b['scenario'] in seen:
                continue          # the first deviation of a scenario; the rest cascades from it
            seen.add(b['scenario'])
            lines = scenario_lines_by(r['file'], b['scenario'], '"ev":"ackmodel"')
            path = replay_file(prop, tier, seed, 'engine deviates from AckRetry.tla: ' + b['what'],
                               dict(backend=r['backend'], messages=r['n'], max_retry=r['max'], at_line=b['line'],
                                    trace=[json.loads(x) for x in lines]))
            violations.append((b['what'], path))
    n_scen = sum(r['scenarios'] for r in results)
    n_bad = len(violations)
    sample = [json.loads(x) for x in scenario_lines_by(results[0]['file'], 1, '"ev":"ackmodel"')][:12]
    write_evidence(prop, tier, seed, 'model_checking', dict(
        states=states, transitions=trans, traces_validated_against_impl=n_scen - n_bad, samples=[sample], exhaustive=True,
        model_checking=dict(spec='spec/AckRetry.tla', runs=mc_runs,
                            properties=['StoredBeforeHandler', 'Bounded', 'Redelivery', 'SilentAfterAck']),
        conformance=dict(spec='spec/TraceAck.tla', backends=['mem', 'sqlite'], combos=combos, scenarios=n_scen,
                         operations=sum(r['lines'] - r['scenarios'] for r in results), deviating_scenarios=n_bad),
        rule='every pattern of emit/ack/action/redo/clear/tick/advance over <=3 messages explored by TLC; seeded random '
             'operation sequences on the real engine (virtual clock, manual tick) on both backends replayed on the spec'),
        len(violations), ['one process, one acknowledging channel', 'time in units of half the retry interval'])
    for what, path in violations[:5]:
        print('VIOLATION property=%s replay=%s' % (prop, path))
    return 1 if violations else 0


# --------------------------------------------------------------------------------------------
# C10: StoreQuery.tla + store driver

COLLS = ['tasks', 'procs', 'models', 'messages', 'events', 'packages']


def check_c10(tier, seed):
    prop = 'C10'
    build_harness()
    quick = tier == 'quick'
    out, wall = tlc('MCStore.tla', 'SPECIFICATION Spec\nCONSTANT NIds = %d\nINVARIANT CanonicalOK\nINVARIANT Sorted\n'
                    'INVARIANT PagesPartition\nINVARIANT WrongCountRejected\nCHECK_DEADLOCK FALSE\n' % (2 if quick else 3),
                    'store-mc', workers=8, timeout=3000)
    states, trans = tlc_stats(out)
    if 'Error:' in out or states == 0:
        raise ToolError('StoreQuery.tla fails its own sanity properties: the specification is wrong\n' + out[-1500:])
    log('model checking StoreQuery: %d states' % states)
    runs, ops = (40, 40) if quick else (400, 60)
    d = '%s/store-%s' % (WORK, tier)
    shutil.rmtree(d, ignore_errors=True)
    os.makedirs(d)
    jobs = [(b, c) for b in ('mem', 'sqlite') for c in COLLS]

    def run(job):
        b, c = job
        f = '%s/st-%s-%s.ndjson' % (d, b, c)
        sh([HARNESS, 'store', '--out', f, '--runs', str(runs), '--ops', str(ops), '--coll', c, '--backend', b,
            '--seed', str(seed * 100 + COLLS.index(c)), '--workdir', d + '/run'], check=True, timeout=1800)
        out, wall = tlc('TraceStore.tla', 'SPECIFICATION SSpec\nPOSTCONDITION SDone\nCHECK_DEADLOCK FALSE\n',
                        'store-tr-%s-%s' % (b, c), env={'TRACE': f}, workers=1, timeout=1800, java_opts=JOPTS)
        if 'STORE|DONE' not in out:
            raise ToolError('TraceStore failed on %s\n%s' % (f, out[-2000:]))
        bad = []
        for ln in out.split('\n'):
            if ln.startswith('"STORE|VIOLATION'):
                p = json.loads(ln).split('|')
                bad.append(dict(what=p[2], scenario=int(p[3]), line=int(p[4])))
        return dict(file=f, backend=b, coll=c, scenarios=runs, lines=count_lines(f), bad=bad)

    with concurrent.futures.ThreadPoolExecutor(max_workers=12) as ex:
        results = list(ex.map(run, jobs))
    violations = []
    for r in results:
        seen = set()
        for b in r['bad']:
            if b['scenario'] in seen:
                continue
            seen.add(b['scenario'])
            lines = scenario_lines_by(r['file'], b['scenario'], '"ev":"storemodel"')
            path = replay_file(prop, tier, seed, 'store deviates from StoreQuery.tla: ' + b['what'],
                               dict(backend=r['backend'], collection=r['coll'], at_line=b['line'],
                                    trace=[json.loads(x) for x in lines]))
            violations.append((b['what'], path))
    n_scen = sum(r['scenarios'] for r in results)
    sample = [json.loads(x) for x in scenario_lines_by(results[0]['file'], 1, '"ev":"storemodel"')][:10]
    write_evidence(prop, tier, seed, 'model_checking', dict(
        states=states, transitions=trans, traces_validated_against_impl=n_scen - len(violations), samples=[sample],
        model_checking=dict(spec='spec/StoreQuery.tla via spec/MCStore.tla',
                            invariants=['CanonicalOK', 'Sorted', 'PagesPartition', 'WrongCountRejected']),
        conformance=dict(spec='spec/TraceStore.tla', backends=['mem', 'sqlite'], collections=COLLS, scenarios=n_scen,
                         operations=sum(r['lines'] - r['scenarios'] for r in results), deviating_scenarios=len(violations)),
        rule='seeded random create/update/delete/find/query sequences per collection and backend; every find and query '
             'answer recomputed by TLC from the abstract database; whole-record equality decided in the harness'),
        len(violations), ['records projected to (id, s1, s2, n1, n2); other fields only through the harness equality',
                          'string filters eq/ne only; no null columns; valid operations only (no create on an existing id)'])
    for what, path in violations[:5]:
        print('VIOLATION property=%s replay=%s' % (prop, path))
    return 1 if violations else 0


# --------------------------------------------------------------------------------------------
# C20: Tree.tla / Deploy.tla + tree and deploy drivers


def parse_marked(out, tag):
    bad = []
    for ln in out.split('\n'):
        if ln.startswith('"%s|VIOLATION' % tag):
            p = json.loads(ln).split('|')
            bad.append(dict(what=p[2], a=p[3], b=p[4]))
    return bad


def check_c20(tier, seed):
    prop = 'C20'
    build_harness()
    quick = tier == 'quick'
    fam = family('treefam+hand+timed+core6' if quick else 'treefam+hand+timed+core7+branchy')
    out, wall = tlc('MCTree.tla', 'SPECIFICATION Spec\nCONSTANT SharedCatchPrev = FALSE\nCONSTANT SharedCatchPrevMC = FALSE\n'
                    'INVARIANT WellFormed\nCHECK_DEADLOCK FALSE\n', 'tree-mc', env={'MODELS': fam}, workers=8, timeout=3000)
    st1, tr1 = tlc_stats(out)
    if 'Error:' in out or st1 == 0:
        raise ToolError('Tree.tla is not well formed on the family: the specification is wrong\n' + out[-1500:])
    out, wall = tlc('MCDeploy.tla', open(SPEC + '/MCDeploy.cfg').read(), 'deploy-mc', workers=4, timeout=600)
    st2, tr2 = tlc_stats(out)
    if 'Error:' in out or st2 == 0:
        raise ToolError('Deploy.tla fails its invariants\n' + out[-1500:])
    d = '%s/c20-%s' % (WORK, tier)
    shutil.rmtree(d, ignore_errors=True)
    os.makedirs(d)
    violations = []
    # tree + round trip: every model of the family, in chunks
    tf = d + '/trees.ndjson'
    sh([HARNESS, 'tree', '--models', fam, '--out', tf], check=True, timeout=1800)
    lines = open(tf).read().split('\n')
    lines = [x for x in lines if x]
    chunks = [lines[i:i + 400] for i in range(0, len(lines), 400)]

    def run_tree(ic):
        i, chunk = ic
        f = '%s/trees-%02d.ndjson' % (d, i)
        with open(f, 'w') as fh:
            fh.write('\n'.join(chunk) + '\n')
        out, wall = tlc('TraceTree.tla', open(SPEC + '/TraceTree.cfg').read(), 'tree-tr-%d' % i, env={'TRACE': f},
                        workers=1, timeout=1800, java_opts=JOPTS)
        if 'TREE|DONE' not in out:
            raise ToolError('TraceTree failed on %s\n%s' % (f, out[-2000:]))
        return [(b, f) for b in parse_marked(out, 'TREE')]

    with concurrent.futures.ThreadPoolExecutor(max_workers=8) as ex:
        for res in ex.map(run_tree, list(enumerate(chunks))):
            for b, f in res:
                k = int(b['a'])
                rec = json.loads(open(f).read().split('\n')[k - 1])
                path = replay_file(prop, tier, seed, b['what'] + ': ' + b['b'], dict(model_line=rec))
                violations.append((b['what'], path))
    # registry
    runs = 40 if quick else 400
    n_dep = 0

    def run_dep(b):
        f = '%s/dep-%s.ndjson' % (d, b)
        sh([HARNESS, 'deploy', '--out', f, '--runs', str(runs), '--ops', '30', '--backend', b, '--seed', str(seed + 7),
            '--workdir', d + '/run'], check=True, timeout=1800)
        out, wall = tlc('TraceDeploy.tla', 'SPECIFICATION DSpec\nPOSTCONDITION DDone\nCHECK_DEADLOCK FALSE\n',
                        'deploy-tr-' + b, env={'TRACE': f}, workers=1, timeout=1800, java_opts=JOPTS)
        if 'DEPLOY|DONE' not in out:
            raise ToolError('TraceDeploy failed on %s\n%s' % (f, out[-2000:]))
        return [(x, f, b) for x in parse_marked(out, 'DEPLOY')]

    with concurrent.futures.ThreadPoolExecutor(max_workers=2) as ex:
        for res in ex.map(run_dep, ['mem', 'sqlite']):
            seen = set()
            for x, f, b in res:
                if x['a'] in seen:
                    continue
                seen.add(x['a'])
                ls = scenario_lines_by(f, int(x['a']), '"ev":"deploymodel"')
                path = replay_file(prop, tier, seed, 'registry deviates from Deploy.tla: ' + x['what'],
                                   dict(backend=b, at_line=x['b'], trace=[json.loads(y) for y in ls]))
                violations.append((x['what'], path))
    sample = json.loads(lines[0])
    write_evidence(prop, tier, seed, 'model_checking', dict(
        states=st1 + st2, transitions=tr1 + tr2, traces_validated_against_impl=len(lines) + 2 * runs - len(violations),
        samples=[dict(name=sample.get('name'), tree_nodes=len(sample['tree']['nodes']), roundtrip=sample['tree'].get('roundtrip'))],
        model_checking=dict(specs=['spec/Tree.tla (TreeWellFormed over the family)', 'spec/Deploy.tla (MCDeploy.tla)'],
                            models=count_lines(fam)),
        conformance=dict(tree_models=len(lines), registry_scenarios=2 * runs, backends=['mem', 'sqlite'],
                         deviations=len(violations)),
        rule='every model of the family, as written, with generated ids, and rebuilt from the kept model: engine tree == Flatten(model) (or both reject), table well formed, YAML/JSON '
             'round trip equal, parsed model keeps every value of its text; registry: seeded random deploy/rm/start sequences'),
        len(violations), ['round-trip and text-fidelity equality are decided in the harness (serde values), TLC requires the flags',
                          'generated ids: every accepted model is also built with the ids nothing refers to left to the engine, and rebuilt from the model that tree keeps; both tables are renamed position by position to the written ids before TLC compares them with Tree.tla (a run-time reload of a process with generated ids is not driven)'])
    for what, path in violations[:5]:
        print('VIOLATION property=%s replay=%s' % (prop, path))
    return 1 if violations else 0


# --------------------------------------------------------------------------------------------
# C18: Glob.tla / Channels.tla + chan driver


def check_c18(tier, seed):
    prop = 'C18'
    build_harness()
    quick = tier == 'quick'
    out, wall = tlc('MCGlob.tla', 'SPECIFICATION Spec\nINVARIANT Laws\nINVARIANT ChanLaws\nCHECK_DEADLOCK FALSE\n', 'glob-mc',
                    workers=8, timeout=1200)
    states, trans = tlc_stats(out)
    if 'Error:' in out or states == 0:
        raise ToolError('Glob.tla / Channels.tla fail their own laws: the specification is wrong\n' + out[-1500:])
    d = '%s/c18-%s' % (WORK, tier)
    shutil.rmtree(d, ignore_errors=True)
    os.makedirs(d)
    shards, runs = (6, 60) if quick else (14, 1200)

    def run(i):
        f = '%s/chan-%02d.ndjson' % (d, i)
        sh([HARNESS, 'chan', '--out', f, '--runs', str(runs), '--seed', str(seed * 100 + i), '--workdir', d + '/run'],
           check=True, timeout=3000)
        out, wall = tlc('TraceChan.tla', 'SPECIFICATION CSpec\nPOSTCONDITION CDone\nCHECK_DEADLOCK FALSE\n', 'chan-tr-%d' % i,
                        env={'TRACE': f}, workers=1, timeout=3000, java_opts=JOPTS)
        if 'CHAN|DONE' not in out:
            raise ToolError('TraceChan failed on %s\n%s' % (f, out[-2000:]))
        emits = sum(1 for ln in open(f) if '"op":"Emit"' in ln)
        regs = sum(1 for ln in open(f) if '"op":"Register"' in ln)
        hit = sum(1 for ln in open(f) if '"op":"Emit"' in ln and '"got":[]' not in ln)
        return dict(file=f, bad=parse_marked(out, 'CHAN'), emits=emits, regs=regs, hit=hit)

    with concurrent.futures.ThreadPoolExecutor(max_workers=8) as ex:
        results = list(ex.map(run, range(shards)))
    violations = []
    for r in results:
        seen = set()
        for b in r['bad']:
            if b['a'] in seen:
                continue
            seen.add(b['a'])
            ls = scenario_lines_by(r['file'], int(b['a']), '"ev":"chanmodel"')
            path = replay_file(prop, tier, seed, 'channel deliveries deviate from Channels.tla: ' + b['what'],
                               dict(at_line=b['b'], trace=[json.loads(y) for y in ls]))
            violations.append((b['what'], path))
    emits = sum(r['emits'] for r in results)
    sample = [json.loads(x) for x in scenario_lines_by(results[0]['file'], 1, '"ev":"chanmodel"')][:8]
    write_evidence(prop, tier, seed, 'model_checking', dict(
        states=states, transitions=trans, traces_validated_against_impl=shards * runs - len(violations), samples=[sample],
        model_checking=dict(spec='spec/Glob.tla, spec/Channels.tla via spec/MCGlob.tla', invariants=['Laws', 'ChanLaws']),
        conformance=dict(scenarios=shards * runs, messages=emits, messages_delivered_to_some_channel=sum(r['hit'] for r in results),
                         channel_registrations=sum(r['regs'] for r in results), deviations=len(violations)),
        rule='random token patterns (literals, *, ?, classes, negated classes, alternations) for the five options of up to 3 '
             'channels registered / re-registered / closed / unsubscribed at arbitrary points of gated engine runs; for every '
             'generated message TLC recomputes the receiver set with its own matcher'),
        len(violations), ['pattern texts globset refuses are not generated', 'no escapes, no ranges inside classes'])
    for what, path in violations[:5]:
        print('VIOLATION property=%s replay=%s' % (prop, path))
    return 1 if violations else 0


def tla_unquote(line):
    line = line.strip()
    out, i = [], 1
    while i < len(line) - 1:
        if line[i] == '\\':
            out.append(line[i + 1]); i += 2
        else:
            out.append(line[i]); i += 1
    return ''.join(out)


def check_c14(tier, seed):
    prop = 'C14'
    build_harness()
    quick = tier == 'quick'
    consts = 'CONSTANT LawLen = 2\nCONSTANT CaseLen = %d\nCHECK_DEADLOCK FALSE\n' % (3 if quick else 4)
    out, wall = tlc('MCScript.tla', 'SPECIFICATION LawSpec\nINVARIANT Laws\nINVARIANT ValueLaws\n' + consts, 'script-mc',
                    workers=8, timeout=1800)
    states, trans = tlc_stats(out)
    if 'Error:' in out or states == 0:
        raise ToolError('Script.tla fails its own laws: the specification is wrong\n' + out[-1500:])
    out, wall = tlc('MCScript.tla', 'SPECIFICATION CaseSpec\nINVARIANT Emit\n' + consts, 'script-cases', workers=1, timeout=3000)
    if 'Error:' in out:
        raise ToolError('MCScript case enumeration failed\n' + out[-1500:])
    d = '%s/c14-%s' % (WORK, tier)
    shutil.rmtree(d, ignore_errors=True)
    os.makedirs(d)
    cases = d + '/cases.ndjson'
    ncases = 0
    with open(cases, 'w') as fh:
        for ln in out.split('\n'):
            if ln.startswith('"CASE|'):
                fh.write(tla_unquote(ln)[5:] + '\n')
                ncases += 1
    if ncases < 1000:
        raise ToolError('MCScript produced only %d cases' % ncases)
    # the template cases once; the value cases several times, walking the pools of boundary values
    plans = [('tpl', 0, sh_i, 4) for sh_i in range(4)] if not quick else [('tpl', 0, 0, 1)]
    plans += [('val', off, 0, 1) for off in range(3 if quick else 8)]

    def run(i):
        kinds, off, shard, shards = plans[i]
        f = '%s/script-%02d.ndjson' % (d, i)
        sh([HARNESS, 'script', '--cases', cases, '--out', f, '--kinds', kinds, '--offset', str(off + seed - 1),
            '--shard', str(shard), '--shards', str(shards), '--workdir', d + '/run'], check=True, timeout=3000)
        out, wall = tlc('TraceScript.tla', 'SPECIFICATION SSpec\nPOSTCONDITION SDone\nCHECK_DEADLOCK FALSE\n', 'script-tr-%d' % i,
                        env={'TRACE': f}, workers=1, timeout=3000, java_opts=JOPTS)
        if 'SCRIPT|DONE' not in out:
            raise ToolError('TraceScript failed on %s\n%s' % (f, out[-2000:]))
        lines = open(f).read().split('\n')
        return dict(file=f, bad=parse_marked(out, 'SCRIPT'), lines=lines,
                    tpl=sum(1 for x in lines if '"ev":"tpl"' in x), val=sum(1 for x in lines if '"ev":"val"' in x))

    with concurrent.futures.ThreadPoolExecutor(max_workers=6) as ex:
        results = list(ex.map(run, range(len(plans))))
    by_what = {}
    for r in results:
        for b in r['bad']:
            by_what.setdefault(b['what'], []).append(json.loads(r['lines'][int(b['b']) - 1]))
    violations = []
    for what, recs in sorted(by_what.items()):
        path = replay_file(prop, tier, seed, 'the engine deviates from Script.tla: ' + what,
                           dict(count=len(recs), cases=recs[:25]))
        violations.append((what, path))
    ntpl = sum(r['tpl'] for r in results)
    nval = sum(r['val'] for r in results)
    sample = [json.loads(x) for x in results[0]['lines'][1:4]] + [json.loads(x) for x in results[-1]['lines'][1:4]]
    write_evidence(prop, tier, seed, 'model_checking', dict(
        states=states, transitions=trans, traces_validated_against_impl=ntpl + nval - sum(len(v) for v in by_what.values()),
        samples=[sample],
        model_checking=dict(spec='spec/Script.tla via spec/MCScript.tla', invariants=['Laws', 'ValueLaws'],
                            cases_enumerated_by_tlc=ncases),
        conformance=dict(template_cases=ntpl, value_cases=nval, deviations=sum(len(v) for v in by_what.values())),
        rule='TLC enumerates every parameter string of up to %d segments over %d literal / template symbols and every value shape '
             'of depth <= 2 over 21 scalar classes x 7 routes across the script boundary; the harness runs each case through the '
             'real engine (created-message params / inputs, acts.transform.code results, branch conditions) and TLC compares every '
             'observation with Fill / Through of Script.tla' % (3 if quick else 4, 20)),
        len(violations), ['values are compared as canonical JSON text with numbers by value (1.0 = 1)',
                          'integers above 2^53 and non-finite floats are outside the statement and not generated',
                          'template expressions are variable references and two small JS expressions'])
    for what, path in violations[:5]:
        print('VIOLATION property=%s replay=%s' % (prop, path))
    return 1 if violations else 0


def check_c16(tier, seed):
    prop = 'C16'
    kf = known_findings()
    build_harness()
    quick = tier == 'quick'
    fam = family('gens')
    out, wall = tlc('MCGen.tla', 'SPECIFICATION Spec\nCONSTANT MaxPush = %d\nINVARIANT GenLaws\nPROPERTY Monotone\n'
                    'PROPERTY Terminates\nCHECK_DEADLOCK FALSE\n' % (1 if quick else 2), 'gen-mc', env={'MODELS': fam},
                    workers=8, timeout=3000)
    states, trans = tlc_stats(out)
    if 'Error:' in out or states == 0:
        raise ToolError('Gen.tla fails its own laws: the specification is wrong\n' + out[-1500:])
    d = '%s/c16-%s' % (WORK, tier)
    shutil.rmtree(d, ignore_errors=True)
    os.makedirs(d)
    shards = 6 if quick else 48

    def run(i):
        f = '%s/gen-%02d.ndjson' % (d, i)
        sh([HARNESS, 'gen', '--models', fam, '--out', f, '--seed', str(seed * 100 + i), '--workdir', d + '/run']
           + (['--push'] if i % 2 == 0 else []), check=True, timeout=3000)
        out, wall = tlc('TraceGen.tla', 'SPECIFICATION GSpec\nPOSTCONDITION GDone\nCHECK_DEADLOCK FALSE\n', 'gen-tr-%d' % i,
                        env={'TRACE': f}, workers=1, timeout=3000, java_opts=JOPTS)
        if 'GEN|DONE' not in out:
            raise ToolError('TraceGen failed on %s\n%s' % (f, out[-2000:]))
        known = []
        for ln in out.split('\n'):
            if ln.startswith('"GEN|KNOWN'):
                p = json.loads(ln).split('|')
                known.append(dict(kf=p[2], a=p[3], b=p[4]))
        n = sum(1 for ln in open(f) if '"ev":"gen"' in ln)
        sc = sum(1 for ln in open(f) if '"ev":"genmodel"' in ln)
        return dict(file=f, bad=parse_marked(out, 'GEN'), known=known, obs=n, scen=sc)

    with concurrent.futures.ThreadPoolExecutor(max_workers=8) as ex:
        results = list(ex.map(run, range(shards)))
    violations, known_seen = [], {}
    for r in results:
        seen = set()
        for b in r['bad']:
            if b['a'] in seen:
                continue
            seen.add(b['a'])
            ls = scenario_lines_by(r['file'], int(b['a']), '"ev":"genmodel"')
            path = replay_file(prop, tier, seed, 'generated acts / hooks deviate from Gen.tla: ' + b['what'],
                               dict(at_line=b['b'], trace=[json.loads(y) for y in ls]))
            violations.append((b['what'], path))
        for k in r['known']:
            if k['kf'] in kf and kf[k['kf']]['status'] == 'open':
                known_seen[k['kf']] = known_seen.get(k['kf'], 0) + 1
            else:
                ls = scenario_lines_by(r['file'], int(k['a']), '"ev":"genmodel"')
                path = replay_file(prop, tier, seed, 'classified as %s, which is not an open known finding' % k['kf'],
                                   dict(at_line=k['b'], trace=[json.loads(y) for y in ls]))
                violations.append((k['kf'], path))
    for k, n in sorted(known_seen.items()):
        print('KNOWN-FINDING: property=%s %s (%d observations): %s' % (prop, k, n, kf[k]['what'][:160]))
    sample = [json.loads(x) for x in scenario_lines_by(results[0]['file'], 40, '"ev":"genmodel"')][:5]
    write_evidence(prop, tier, seed, 'model_checking', dict(
        states=states, transitions=trans, traces_validated_against_impl=sum(r['scen'] for r in results) - len(violations),
        samples=[sample],
        model_checking=dict(spec='spec/Gen.tla via spec/MCGen.tla', invariants=['GenLaws', 'Monotone', 'Terminates'],
                            programs=count_lines(fam)),
        conformance=dict(scenarios=sum(r['scen'] for r in results), observations=sum(r['obs'] for r in results),
                         deviations=len(violations), known_findings=known_seen),
        rule='every program of the gens family (parallel / sequence over lists of 0..3 elements, one or two acts per group, '
             'nested generators, blocks, message acts, hooks on workflow / step / act for created, completed, before_update, '
             'updated, step; pushes into the open step) is run under the gate with a random release order of the engine\'s '
             'internal tasks and a random order of client completions; after every client call TLC recomputes from Gen.tla the '
             'open interrupts with index path and value, the groups every generator has opened, the firings of every hook, '
             'and whether the step and the process have finished'),
        len(violations), ['list elements are strings u0..u3; hook acts are message acts; one step per program',
                          'timeout / catch hooks are C19 / C06'])
    for what, path in violations[:5]:
        print('VIOLATION property=%s replay=%s' % (prop, path))
    return 1 if violations else 0


def check_c07(tier, seed):
    prop = 'C07'
    build_harness()
    quick = tier == 'quick'
    fam = family('dataflow')
    out, wall = tlc('MCData.tla', 'SPECIFICATION Spec\nINVARIANT DataLaws\nINVARIANT NoCrossing\nCHECK_DEADLOCK FALSE\n', 'data-mc',
                    env={'MODELS': fam}, workers=4, timeout=1800)
    states, trans = tlc_stats(out)
    if 'Error:' in out or states == 0:
        raise ToolError('Data.tla fails its own laws: the specification is wrong\n' + out[-1500:])
    d = '%s/c07-%s' % (WORK, tier)
    shutil.rmtree(d, ignore_errors=True)
    os.makedirs(d)
    flavours = ['ct', 'mt2', 'ct', 'mt4'] if quick else ['ct', 'mt1', 'mt2', 'mt4', 'mt8'] * 6

    def run(i):
        f = '%s/data-%02d.ndjson' % (d, i)
        sh([HARNESS, 'data', '--models', fam, '--out', f, '--seed', str(seed * 100 + i), '--rt', flavours[i],
            '--workdir', d + '/run'], check=True, timeout=3000)
        out, wall = tlc('TraceData.tla', 'SPECIFICATION DSpec\nPOSTCONDITION DDone\nCHECK_DEADLOCK FALSE\n', 'data-tr-%d' % i,
                        env={'TRACE': f}, workers=1, timeout=3000, java_opts=JOPTS)
        if 'DATA|DONE' not in out:
            raise ToolError('TraceData failed on %s\n%s' % (f, out[-2000:]))
        lines = open(f).read().split('\n')
        return dict(file=f, bad=parse_marked(out, 'DATA'), lines=lines, n=sum(1 for x in lines if x))

    with concurrent.futures.ThreadPoolExecutor(max_workers=8) as ex:
        results = list(ex.map(run, range(len(flavours))))
    violations = []
    for r in results:
        seen = set()
        for b in r['bad']:
            if b['a'] in seen:
                continue
            seen.add(b['a'])
            rec = json.loads(r['lines'][int(b['a']) - 1])
            path = replay_file(prop, tier, seed, 'data flow deviates from Data.tla: ' + b['what'], dict(program=rec.get('name'), trace=[rec]))
            violations.append((b['what'], path))
    total = sum(r['n'] for r in results)
    sample = [json.loads(results[0]['lines'][70])]
    write_evidence(prop, tier, seed, 'model_checking', dict(
        states=states, transitions=trans, traces_validated_against_impl=total - len(violations), samples=[sample],
        model_checking=dict(spec='spec/Data.tla via spec/MCData.tla', invariants=['DataLaws', 'NoCrossing'], programs=count_lines(fam)),
        conformance=dict(scenarios=total, processes=2 * total, deviations=len(violations), runtimes=sorted(set(flavours))),
        rule='every program of the dataflow family (one or two writers per step out of: set of a constant, set of an expression '
             'over another name, $set in a script, an object returned by a script, client actions with and without declared '
             'outputs, with extra and with private options; names declared by the workflow, by the writer\'s step, by the other '
             'step, by nobody) is run as two interleaved processes with different start values; TLC recomputes from Data.tla what '
             'every reader interrupt must have seen, the outputs of the terminal event and the holders of the private key'),
        len(violations), ['two steps in sequence, no branches; values are small integers',
                          'the visibility of names declared by no scope is not judged (outside the statement)',
                          'one engine, two processes: isolation across more processes is C13'])
    for what, path in violations[:5]:
        print('VIOLATION property=%s replay=%s' % (prop, path))
    return 1 if violations else 0


# --------------------------------------------------------------------------------------------


def do_replay(prop, path):
    data = json.load(open(path))
    print(json.dumps({k: v for k, v in data.items() if k not in ('trace',)}, indent=1)[:4000])
    if 'trace' in data:
        os.makedirs(WORK + '/replay', exist_ok=True)
        t = WORK + '/replay/re.ndjson'
        with open(t, 'w') as fh:
            for r in data['trace']:
                fh.write(json.dumps(r) + '\n')
        o = observe_validate(t, 're')
        for x in o['obs']:
            print('OBSERVE:', x)
        return 1 if any(x['kind'] == 'VIOLATION' for x in o['obs']) else 0
    return 0


def main(argv):
    if not argv:
        print(__doc__)
        return 2
    prop = argv[0]
    tier = os.environ.get('VERIF_TIER', 'quick')
    seed = int(os.environ.get('VERIF_SEED', '1'))
    replay = None
    i = 1
    while i < len(argv):
        if argv[i] == '--tier':
            tier = argv[i + 1]; i += 2
        elif argv[i] == '--replay':
            replay = argv[i + 1]; i += 2
        else:
            i += 1
    os.makedirs(WORK, exist_ok=True)
    os.makedirs(CACHE, exist_ok=True)
    try:
        if replay:
            return do_replay(prop, replay)
        if prop in CORE:
            return check_core(prop, tier, seed)
        if prop == 'C09':
            return check_c09(tier, seed)
        if prop == 'C10':
            return check_c10(tier, seed)
        if prop == 'C20':
            return check_c20(tier, seed)
        if prop == 'C18':
            return check_c18(tier, seed)
        if prop == 'C14':
            return check_c14(tier, seed)
        if prop == 'C16':
            return check_c16(tier, seed)
        if prop == 'C07':
            return check_c07(tier, seed)
        print('no check for', prop)
        return 2
    except ToolError as e:
        print('TOOL-ERROR: %s' % e, file=sys.stderr)
        return 2
