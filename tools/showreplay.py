#!/usr/bin/env python3
import json,glob,sys
f=sys.argv[1] if len(sys.argv)>1 else sorted(glob.glob('/verif/.work/replay/*.json'),key=lambda p:__import__('os').path.getmtime(p))[-1]
d=json.load(open(f))
print(f); print(d['what'], '| formula', d.get('formula'), '| task', d.get('task'), '| step', d.get('step'))
tr=d['trace']
print(tr[0]['name'], tr[0]['inputs']); print(json.dumps(tr[0].get('x')))
import re
def short(m):
    return m
print(json.dumps(tr[0]['model'])[:900])
for s in tr[1:]:
    if s['ev']!='step': print(s); continue
    print(s['n'], s['a'], s.get('t'), s.get('kind',''), json.dumps(s.get('opts','')) if s['a']=='Act' else '', s['res'][:30], [ (w['t'][0]+'#'+str(w['t'][1]),w['old'],w['new']) for w in s['ws'] if w['kind']!='proc'], 'gens', [(g['what'][:3],g['t'][0]+'#'+str(g['t'][1]),g['state']) for g in s['gens']], 'q=',[x[0]+'#'+str(x[1]) for x in (s['post']['procs'].get('p1',{}).get('q') or [])])
