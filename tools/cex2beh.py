#!/usr/bin/env python3
"""TLC -dumpTrace json file -> one behaviour line (labels) for the harness replay driver.
usage: cex2beh.py <trace.json> <id> >> behaviours.ndjson"""
import json, sys
d = json.load(open(sys.argv[1]))
states = d['counterexample']['state']
labels = []
for i, st in states:
    la = st.get('lastAct')
    if la and la.get('a') not in (None, 'nil'):
        labels.append(la)
print(json.dumps({"id": sys.argv[2] if len(sys.argv) > 2 else "cex", "labels": labels}))
