#!/bin/bash
# trymutant.sh <patch.diff> <prop> [<prop>...] : apply to /repo, run checks, ALWAYS revert
patch=$1; shift
cd /repo || exit 2
if ! git diff --quiet; then echo "/repo has uncommitted changes"; exit 2; fi
git apply --check "$patch" || { echo "patch does not apply"; exit 2; }
git apply "$patch"
trap 'git -C /repo checkout -- . ; echo "[reverted]"' EXIT
cd /verif
for p in "$@"; do
  echo "=== $p"
  ./check $p 2>&1 | grep -v "^\[check" | cut -c1-220 | head -8
  echo "exit=${PIPESTATUS[0]}"
done
