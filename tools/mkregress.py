#!/usr/bin/env python3
"""Produce regression behaviours: for each (id, deviations, invariant, raw?) run TLC on regress/models.ndjson
with the deviation switched ON (the code as it was / the open finding) and keep the counterexample's labels."""
import json, os, re, subprocess, sys
V='/verif'
CASES = [
 # id, Deviations, SharedCatchPrev, invariant (raw form: V_x = {}), budget, kinds
 ('F1_late_else',        '{"F1"}', 'FALSE', 'Holds(V_C01_QuiescentOK)', 0, '{"complete"}'),
 ('F2_submit_terminal',  '{"F2"}', 'FALSE', 'Holds(V_C05_TerminalRejected)', 1, '{"complete","submit"}'),
 ('F17_exec_terminal',   '{"F17","F19"}', 'FALSE', 'Holds(V_C02_Lifecycle)', 1, '{"complete","skip"}'),
 ('F19_act_on_none',     '{"F19"}', 'FALSE', 'Holds(V_C08_CreatedFirst) /\\ Holds(V_C08_TerminalReported) /\\ (lastAct.a = "Act" /\\ lastRes = "ok" => lastAct.st # "none")', 1, '{"complete"}'),
 ('F3_abort_sibling',    '{"F3"}', 'FALSE', 'Holds(V_C03_CleanEnding)', 1, '{"complete","abort"}'),
 ('KF_nested_review_dup','{}', 'FALSE', 'Holds(V_C08_AtMostOne)', 0, '{"complete"}'),
 ('KF_back_enclosing',   '{}', 'FALSE', 'Holds(V_C03_CleanEnding)', 1, '{"complete","back"}'),
 ('F22_cancel_chain',    '{"F22"}', 'FALSE', 'Holds(V_C03_ParentDone)', 1, '{"complete","cancel","skip"}'),
 # coverage targets (not defects of their own): rare histories that random runs seldom reach
 # a task that had ended well is rewritten later (the store must follow: C11)
 ('T_done_rewritten',    '{}', 'FALSE', 'Holds(V_C02_Lifecycle)', 2, '{"complete","back","error"}'),
 ('T_done_rewritten_abort', '{}', 'FALSE', 'Holds(V_C02_Lifecycle)', 2, '{"complete","back","abort"}'),
]
out=[]
os.makedirs(V+'/.work/regress',exist_ok=True)
for cid,dev,scp,inv,budget,kinds in CASES:
    cfg=f'''SPECIFICATION Spec
CONSTANTS
  Models <- MCModels
  InputSets <- MCInputSets
  Pids = {{"p1"}}
  TopPids = {{"p1"}}
  StartAny = FALSE
  MaxActions = {budget}
  ActionKinds = {kinds}
  ErrCodes = {{"e1"}}
  Deviations = {dev}
  SharedCatchPrev = {scp}
  AdvSet = {{}}
  MaxTime = 0
  Grid = {{0}}
  MaxInst = 2
  Keep = TRUE
  WithEvict = FALSE
VIEW View
INVARIANT RegressInv
CONSTRAINT InstBound
CHECK_DEADLOCK FALSE
'''
    open(V+'/spec/MCRegress.tla','w').write('---- MODULE MCRegress ----\nEXTENDS MCActs\nRegressInv == '+inv+'\n====\n')
    c=V+'/.work/regress/'+cid+'.cfg'; open(c,'w').write(cfg)
    dump=V+'/.work/regress/'+cid+'.json'
    if os.path.exists(dump): os.remove(dump)
    p=subprocess.run(['tlc','-workers','4','-metadir',V+'/.work/regress/md','-cleanup','-noGenerateSpecTE','-dumpTrace','json',dump,'-config',c,'MCRegress.tla'],cwd=V+'/spec',env=dict(os.environ,MODELS=V+'/regress/models.ndjson'),capture_output=True,text=True)
    if not os.path.exists(dump):
        print('NO COUNTEREXAMPLE for',cid, re.findall(r'Error:.*',p.stdout)[:2]); continue
    d=json.load(open(dump))
    labels=[st['lastAct'] for i,st in d['counterexample']['state'] if st.get('lastAct',{}).get('a') not in (None,'nil')]
    out.append(dict(id=cid,labels=labels))
    print(cid,len(labels),'labels')
os.remove(V+'/spec/MCRegress.tla')
with open(V+'/regress/behaviours.ndjson','w') as fh:
    for b in out: fh.write(json.dumps(b)+'\n')
